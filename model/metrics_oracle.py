"""
Oracles over one executed metrics-mode program: the recorded history (C12), the
metrics dictionary (C13 blocks, C14 roll-up).  Everything about the specification is
recomputed here from the YAML-level spec dict, never by asking teaal.
"""
from fractions import Fraction

from model import dense

FUNCTIONAL_CLASSES = {"compute", "intersector", "sequencer"}


# ------------------------------------------------------------------ spec-side model

def arch_components(spec, config):
    """name -> {class, instances, attributes} for one configuration of the architecture."""
    out = {}

    def walk(levels):
        for lv in levels:
            name = lv["name"]
            n = 1
            if "[" in name:
                rng = name[name.index("[") + 1:name.index("]")]
                lo, hi = rng.split("..")
                n = int(hi) - int(lo) + 1
            for comp in lv.get("local") or []:
                out[comp["name"]] = {"class": str(comp["class"]).lower(), "instances": n,
                                     "attributes": comp.get("attributes") or {}}
            walk(lv.get("subtree") or [])
    walk(spec["arch"][config])
    return out


def clock_frequency(spec, config):
    top = spec["arch"][config][0]
    return (top.get("attributes") or {}).get("clock_frequency")


def einsum_models(spec):
    """Per Einsum (in program order): config, temporal prefix, bound functional components."""
    out = []
    for e in spec["exprs"]:
        o = dense.output_name(e)
        blist = (spec["bindings"] or {}).get(o) or []
        cfg = None
        bound = {}
        for b in blist:
            if "config" in b:
                cfg = b["config"]
            elif "component" in b:
                bound[b["component"]] = b.get("bindings") or []
        lo = (spec.get("loop_order") or {}).get(o)
        st = (spec.get("spacetime") or {}).get(o)
        prefix = None
        if lo is not None and st is not None:
            space = [x.split(".")[0] for x in st["space"]]
            prefix = []
            for r in lo:
                if r in space:
                    break
                prefix.append(r)
        comps = arch_components(spec, cfg) if cfg in (spec["arch"] or {}) else {}
        func = sorted(c for c, bl in bound.items() if bl and comps.get(c, {}).get("class") in FUNCTIONAL_CLASSES)
        out.append({"einsum": o, "config": cfg, "prefix": prefix, "func": func, "bound": sorted(bound),
                    "components": comps})
    return out


# ------------------------------------------------------------------ C13

def check_blocks(spec, blocks):
    probs = []
    models = einsum_models(spec)
    names = [m["einsum"] for m in models]
    by = {m["einsum"]: m for m in models}
    if not isinstance(blocks, list) or any(not isinstance(b, list) for b in blocks):
        return [{"kind": "blocks_malformed", "blocks": repr(blocks)[:200]}]
    flat = [e for b in blocks for e in b]
    if flat != names:
        probs.append({"kind": "blocks_not_an_ordered_partition", "blocks": blocks, "einsums": names})
        return probs
    if any(len(b) == 0 for b in blocks):
        probs.append({"kind": "empty_block", "blocks": blocks})
    for b in blocks:
        for i in range(len(b)):
            for j in range(i + 1, len(b)):
                a, c = by[b[i]], by[b[j]]
                if a["config"] != c["config"]:
                    probs.append({"kind": "block_mixes_configurations", "einsums": [b[i], b[j]],
                                  "configs": [a["config"], c["config"]]})
                if a["prefix"] is not None and c["prefix"] is not None and a["prefix"] != c["prefix"]:
                    probs.append({"kind": "block_mixes_temporal_prefixes", "einsums": [b[i], b[j]],
                                  "prefixes": [a["prefix"], c["prefix"]]})
                shared = sorted(set(a["func"]) & set(c["func"]))
                if shared:
                    probs.append({"kind": "functional_component_bound_twice_in_block", "einsums": [b[i], b[j]],
                                  "components": shared})
    return probs


# ------------------------------------------------------------------ C14

def _fr(x):
    if isinstance(x, Fraction):
        return x
    if isinstance(x, bool):
        raise TypeError
    if isinstance(x, int):
        return Fraction(x)
    if isinstance(x, float):
        return Fraction(x)
    raise TypeError(type(x).__name__)


def check_time(spec, metrics, handed):
    """metrics: the executed dict; handed: list of handed-out counting values (ctx.handed)."""
    probs = []
    models = {m["einsum"]: m for m in einsum_models(spec)}
    blocks = metrics.get("blocks")
    if "time" not in metrics or blocks is None:
        return [{"kind": "no_time_or_blocks"}]
    # component times present in the dump
    times = {}
    for e, m in models.items():
        me = metrics.get(e)
        if not isinstance(me, dict):
            probs.append({"kind": "no_metrics_for_einsum", "einsum": e})
            continue
        for c, d in me.items():
            if isinstance(d, dict) and "time" in d:
                times[(e, c)] = d
    # (1) roll-up
    try:
        total = Fraction(0)
        for b in blocks:
            per = {}
            for e in b:
                for (ee, c), d in times.items():
                    if ee == e:
                        per[c] = per.get(c, Fraction(0)) + _fr(d["time"])
            total += max(per.values()) if per else 0
        if _fr(metrics["time"]) != total:
            probs.append({"kind": "rollup_mismatch", "emitted": str(metrics["time"]), "expected": str(total)})
    except TypeError as ex:
        probs.append({"kind": "non_numeric_time", "error": str(ex)})
        return probs
    # (2) each component time = count / (rate * instances)
    for (e, c), d in sorted(times.items()):
        comp = models[e]["components"].get(c)
        if comp is None:
            probs.append({"kind": "timed_component_not_in_architecture", "einsum": e, "component": c})
            continue
        cls = comp["class"]
        if cls in ("dram",) or (cls in ("buffet", "cache") and comp["attributes"].get("bandwidth") is not None):
            # a memory that sources traffic: bits moved / (bandwidth * instances)
            rate = comp["attributes"].get("bandwidth")
            count = Fraction(0)
            for t, td in d.items():
                if t == "time" or not isinstance(td, dict):
                    continue
                count += _fr(td.get("read", 0))
                if t == e:
                    count += _fr(td.get("write", 0))
        elif cls in ("buffet", "cache"):
            rate = comp["attributes"].get("bandwidth")
            count = None
        else:
            rate = clock_frequency(spec, models[e]["config"])
            count = sum((_fr(v) for k, v in d.items() if k != "time"), Fraction(0))
        if rate is None or count is None:
            continue
        expected = count / (Fraction(rate) * comp["instances"])
        if _fr(d["time"]) != expected:
            probs.append({"kind": "component_time_formula", "einsum": e, "component": c, "emitted": str(d["time"]),
                          "expected": str(expected), "count": str(count), "rate": rate, "instances": comp["instances"]})
    # (3) every handed-out count lands in exactly one count entry of the einsum's section
    #     (values are spaced powers of four: base-4 digits of an entry say which values it contains)
    entries = []
    for e in models:
        me = metrics.get(e)
        if not isinstance(me, dict):
            continue
        for c, d in me.items():
            if not isinstance(d, dict):
                continue
            for k, v in d.items():
                if k == "time":
                    continue
                if isinstance(v, dict):
                    for kk, vv in v.items():
                        entries.append(((e, c, k, kk), vv))
                else:
                    entries.append(((e, c, k), v))
    for h in handed:
        v = h["value"]
        n = 0
        for key, ev in entries:
            try:
                q = _fr(ev)
            except TypeError:
                continue
            if q.denominator != 1 or v.denominator != 1:
                continue
            digit = (q.numerator // v.numerator) % 4 if v.numerator and q.numerator >= v.numerator else 0
            if digit:
                n += digit
        h["landed"] = n
    return probs


# ------------------------------------------------------------------ C12

def check_history(spec, ctx, require_fed=True):
    """produce-before-consume / open-close check over the recorded history."""
    probs = []
    outs = [dense.output_name(e) for e in spec["exprs"]]
    prefixes = []
    for o in outs:
        p = None
        for b in (spec["bindings"] or {}).get(o) or []:
            if "config" in b:
                p = b.get("prefix")
        prefixes.append(p)
    secs = ctx.sections
    if [s["prefix"] for s in secs] != prefixes:
        probs.append({"kind": "collection_sections", "opened": [s["prefix"] for s in secs], "expected": prefixes})
    # nesting / exactly once
    collecting = None
    begins = {}
    ends = {}
    for ev in ctx.hist:
        if ev[1] == "beginCollect":
            if collecting is not None:
                probs.append({"kind": "beginCollect_while_collecting", "seq": ev[0]})
            collecting = ev[2]
            begins[ev[2]] = begins.get(ev[2], 0) + 1
        elif ev[1] == "endCollect":
            if collecting is None:
                probs.append({"kind": "endCollect_without_begin", "seq": ev[0]})
            else:
                ends[collecting] = ends.get(collecting, 0) + 1
            collecting = None
    if collecting is not None:
        probs.append({"kind": "collection_never_closed", "prefix": collecting})
    for p in prefixes:
        if begins.get(p, 0) != 1 or ends.get(p, 0) != 1:
            probs.append({"kind": "collection_not_exactly_once", "prefix": p, "begins": begins.get(p, 0),
                          "ends": ends.get(p, 0)})
    if getattr(ctx, "iters_outside_collection", 0):
        probs.append({"kind": "loop_iterations_outside_collection", "count": ctx.iters_outside_collection})
    # reads of names never produced
    for m in ctx.missing_reads:
        probs.append({"kind": "trace_consumed_but_never_produced", **m})
    # reads must be produced in the same section

    def section_of(seq):
        cur = None
        for s in secs:
            if s["begin"] <= seq:
                cur = s["prefix"]
        return cur
    for ev in ctx.hist:
        names = []
        if ev[1] == "filterTrace":
            names = [ev[2], ev[3]]
        elif ev[1] in ("buffetTraffic", "cacheTraffic"):
            names = ev[3]
        elif ev[1] == "numIters":
            names = [ev[2]]
        for n in names:
            w = ctx.store.get(n)
            if w is None:
                continue
            if w > ev[0] or section_of(w) != section_of(ev[0]):
                probs.append({"kind": "trace_produced_in_another_section_or_later", "name": n, "written_seq": w,
                              "read_seq": ev[0]})
    # consumeTrace refers to a consumable registration of the open section
    reg = None
    collecting = None
    for ev in ctx.hist:
        if ev[1] == "beginCollect":
            collecting = ev[2]
            reg = set()
        elif ev[1] == "endCollect":
            collecting = None
        elif ev[1] == "Metrics.trace":
            if reg is not None:
                reg.add((ev[2], ev[3], ev[4]))
            if collecting is None:
                probs.append({"kind": "trace_registered_outside_collection", "rank": ev[2], "type": ev[3]})
        elif ev[1] == "consumeTrace":
            if collecting is None:
                probs.append({"kind": "consumeTrace_outside_collection", "rank": ev[2], "type": ev[3]})
            elif (ev[2], ev[3], True) not in (reg or set()):
                probs.append({"kind": "consumeTrace_of_unregistered_or_unconsumable_trace", "rank": ev[2],
                              "type": ev[3]})
    # intersectors queried in the dump: created after beginCollect, before the loops, fed while collecting
    for q in ctx.queried_isects:
        obj = ctx.isects[q["id"]]
        sec = None
        for s in secs:
            if obj.id in s["isects"]:
                sec = s
        if sec is None or obj.created_collecting is None:
            probs.append({"kind": "intersector_created_outside_collection", "id": obj.id})
            continue
        if sec["prefix"] != q["section"]:
            probs.append({"kind": "intersector_queried_in_another_section", "id": obj.id})
        if sec["first_iter"] is not None and obj.created > sec["first_iter"]:
            probs.append({"kind": "intersector_created_inside_loops", "id": obj.id})
        if sec["first_iter"] is not None and require_fed:
            fed = [f for f in obj.fed if f["collecting"] == sec["prefix"] and f["seq"] > sec["first_iter"]]
            if not fed:
                probs.append({"kind": "intersector_never_fed_during_collection", "id": obj.id})
    return probs
