"""
Closedness analyser (oracle for C06; used by C08 and C10).

Forward definite-assignment pass over the emitted text:
  * module-level statements in order;
  * `for`: targets are bound in the body only; names first bound inside a body
    are NOT definitely bound after the loop (the loop may run zero times);
  * `if/else`: a name is bound afterwards iff bound on both paths;
  * lambdas bind their parameters in their body;
  * augmented assignment reads its target.
It reports every identifier that is read where it is not definitely bound and
not in the allowed free-name set, plus loop variables read after their loop.

The allowed free-name set is computed from the specification (the YAML-level
spec dict of gen/spec.py) by code that does not use teaal.
"""
import ast
import builtins

from model import dense

API_NAMES = {
    "Tensor", "Fiber", "createCanvas", "displayCanvas",
    "Metrics", "Traffic", "Compute", "Format",
    "LeaderFollowerIntersector", "SkipAheadIntersector", "TwoFingerIntersector",
}
BUILTINS_EMITTED = {"enumerate", "len", "int", "min", "max", "set", "float", "None", "True", "False", "range"}


def _target_names(t):
    if isinstance(t, ast.Name):
        return [t.id]
    if isinstance(t, (ast.Tuple, ast.List)):
        out = []
        for e in t.elts:
            out.extend(_target_names(e))
        return out
    if isinstance(t, ast.Starred):
        return _target_names(t.value)
    return []


class _Analysis:
    def __init__(self, allowed):
        self.allowed = allowed
        self.unbound = []        # (name, lineno)
        self.loop_leaks = []     # (name, lineno)
        self.dead_loop_vars = set()  # loop targets whose loop has ended (and not rebound since)

    def reads(self, e, bound):
        if e is None:
            return
        if isinstance(e, ast.Lambda):
            params = {a.arg for a in e.args.args + e.args.kwonlyargs + e.args.posonlyargs}
            self.reads(e.body, bound | params)
            return
        if isinstance(e, ast.Name):
            if isinstance(e.ctx, ast.Load) and e.id not in bound:
                if e.id in self.dead_loop_vars:
                    self.loop_leaks.append((e.id, e.lineno))
                elif e.id not in self.allowed:
                    self.unbound.append((e.id, e.lineno))
            return
        if isinstance(e, (ast.ListComp, ast.SetComp, ast.GeneratorExp, ast.DictComp)):
            b = set(bound)
            for g in e.generators:
                self.reads(g.iter, b)
                b |= set(_target_names(g.target))
                for c in g.ifs:
                    self.reads(c, b)
            if isinstance(e, ast.DictComp):
                self.reads(e.key, b)
                self.reads(e.value, b)
            else:
                self.reads(e.elt, b)
            return
        for c in ast.iter_child_nodes(e):
            if isinstance(c, ast.keyword):
                self.reads(c.value, bound)
            elif isinstance(c, ast.expr):
                self.reads(c, bound)

    def bind(self, names, bound):
        for n in names:
            bound.add(n)
            self.dead_loop_vars.discard(n)

    def assign_target(self, t, bound):
        if isinstance(t, (ast.Subscript, ast.Attribute)):
            self.reads(t.value, bound)
            if isinstance(t, ast.Subscript):
                self.reads(t.slice, bound)
        else:
            self.bind(_target_names(t), bound)

    def block(self, stmts, bound):
        bound = set(bound)
        for s in stmts:
            if isinstance(s, ast.Assign):
                self.reads(s.value, bound)
                for t in s.targets:
                    self.assign_target(t, bound)
            elif isinstance(s, ast.AugAssign):
                self.reads(s.value, bound)
                if isinstance(s.target, ast.Name):
                    self.reads(ast.Name(id=s.target.id, ctx=ast.Load(), lineno=s.lineno), bound)
                else:
                    self.reads(s.target.value, bound)
                    if isinstance(s.target, ast.Subscript):
                        self.reads(s.target.slice, bound)
            elif isinstance(s, ast.Expr):
                self.reads(s.value, bound)
            elif isinstance(s, ast.For):
                self.reads(s.iter, bound)
                tn = _target_names(s.target)
                inner = set(bound)
                self.bind(tn, inner)
                after_body = self.block(s.body, inner)
                if s.orelse:
                    raise NotImplementedError("for-else")
                # names bound by the loop (targets or body) that were not bound before
                for n in (after_body - bound):
                    self.dead_loop_vars.add(n)
            elif isinstance(s, ast.If):
                self.reads(s.test, bound)
                b1 = self.block(s.body, bound)
                b2 = self.block(s.orelse, bound)
                both = b1 & b2
                for n in (b1 | b2) - both - bound:
                    self.dead_loop_vars.discard(n)
                bound |= both
            elif isinstance(s, ast.Pass):
                pass
            else:
                raise NotImplementedError("statement " + type(s).__name__)
        return bound


def analyse(text, allowed):
    """-> dict(parse_ok, unbound=[(name,line)], loop_leaks=[(name,line)])"""
    try:
        tree = ast.parse(text)
    except SyntaxError as e:
        return {"parse_ok": False, "error": "%s at line %s" % (e.msg, e.lineno), "unbound": [], "loop_leaks": []}
    a = _Analysis(set(allowed))
    a.block(tree.body, set())
    return {"parse_ok": True,
            "unbound": sorted(set(a.unbound)),
            "loop_leaks": sorted(set(a.loop_leaks))}


def free_names(text):
    """all names read without being definitely bound (no allowed set)"""
    r = analyse(text, set())
    return sorted({n for n, _ in r["unbound"]} | {n for n, _ in r["loop_leaks"]})


# ---------------------------------------------------------------- allowed set

def _part_rank_levels(spec):
    """For every partitioned rank key of every Einsum: root rank name(s) and number of directives."""
    out = []
    part = spec.get("partitioning") or {}
    for einsum, d in part.items():
        for key, dirs in d.items():
            names = [x.strip() for x in key.strip("() ").split(",")]
            out.append((einsum, names, list(dirs)))
    return out


def allowed_names(spec):
    decl = spec["decl"]
    exprs = spec["exprs"]
    ro = spec.get("rank_order") or {}
    allowed = set(API_NAMES) | set(BUILTINS_EMITTED)
    produced = set()
    for e in exprs:
        for t in dense.expr_tensors(e):
            if t not in produced:
                order = ro.get(t, decl[t])
                allowed.add(t + "_" + "".join(order))
        for s in dense.expr_scalars(e):
            allowed.add(s)
        produced.add(dense.output_name(e))
    ranks = set()
    for rs in decl.values():
        ranks.update(rs)
    allowed |= ranks
    for einsum, names, dirs in _part_rank_levels(spec):
        if len(names) > 1:
            root = "".join(names)
        else:
            root = names[0]
        nlev = sum(1 for d in dirs if not d.startswith("follow") and not d.startswith("flatten"))
        # level extents ROOT<digit>: the compiler reads e.g. Q0, M1 as the extent of a level
        for i in range(0, max(nlev, 1) + 1):
            allowed.add(root + str(i))
        for d in dirs:
            inner = d[d.index("(") + 1:d.rindex(")")].strip()
            if d.startswith("uniform_occupancy"):
                inner = inner.split(".", 1)[1].strip()
            if d.startswith(("uniform_shape", "nway_shape", "uniform_occupancy")):
                if inner and not inner.isdigit():
                    allowed.add(inner)
    return allowed
