"""
Counterfactual repairs of the *emitted text*, used only to attribute a failing
generated unit to a known finding (DESIGN 3.5): a failing unit is attributed to
finding K iff re-executing the same text with only K's rewrite applied makes
the same oracle pass on the same inputs.

  K1  rational coefficients evaluated in floating point: every literal
      `int / int` in the text becomes an exact Fraction.
  K2  per-partition interval end not clipped to the extent:
      `<r>0_end = inputs_<r>1.getCoords()[<r>1_pos + 1]` becomes min(<that>, <R>).
"""
import ast
import re
from fractions import Fraction


class _K1(ast.NodeTransformer):
    def __init__(self):
        self.n = 0

    def visit_BinOp(self, node):
        self.generic_visit(node)
        if isinstance(node.op, ast.Div):
            l, r = node.left, node.right
            neg = False
            if isinstance(l, ast.UnaryOp) and isinstance(l.op, ast.USub) and isinstance(l.operand, ast.Constant):
                l = l.operand
                neg = True
            if isinstance(l, ast.Constant) and isinstance(r, ast.Constant) and \
                    type(l.value) is int and type(r.value) is int and r.value != 0:
                self.n += 1
                num = -l.value if neg else l.value
                return ast.copy_location(
                    ast.Call(func=ast.Name(id="__Fraction", ctx=ast.Load()),
                             args=[ast.Constant(num), ast.Constant(r.value)], keywords=[]), node)
        return node


class _K2(ast.NodeTransformer):
    def __init__(self):
        self.n = 0

    def visit_Assign(self, node):
        if len(node.targets) == 1 and isinstance(node.targets[0], ast.Name):
            m = re.match(r"^([a-z]+)0_end$", node.targets[0].id)
            v = node.value
            if m and isinstance(v, ast.Subscript) and isinstance(v.value, ast.Call) and \
                    isinstance(v.value.func, ast.Attribute) and v.value.func.attr == "getCoords":
                self.n += 1
                node.value = ast.Call(func=ast.Name(id="min", ctx=ast.Load()),
                                      args=[v, ast.Name(id=m.group(1).upper(), ctx=ast.Load())], keywords=[])
        return node


REWRITES = {"K1": _K1, "K2": _K2}


def rewrite(text, names):
    """-> (code object, {name: number of sites rewritten})"""
    tree = ast.parse(text)
    counts = {}
    for n in names:
        tr = REWRITES[n]()
        tree = tr.visit(tree)
        counts[n] = tr.n
    ast.fix_missing_locations(tree)
    return compile(tree, "<hifiber-cf>", "exec"), counts


def extra_globals():
    return {"__Fraction": Fraction}
