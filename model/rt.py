"""
Reference HiFiber runtime: the stub that stands in for fibertree (which is not
installed and cannot be fetched).  Pure Python, uses only lists, ints, tuples
and explicit sorted(): nothing in here can depend on the interpreter hash seed.

Semantics are the intended fibertree semantics as the compiler's own golden
outputs use them (DESIGN section 4.2).  Everything observable is recorded in a
per-run context `Ctx`:
  * ctx.hist   - history of metrics / canvas / trace-store events, each with a
                 global sequence number; runs of fiber-iteration events are kept
                 as one ("iter", first_seq, last_seq, count) entry
  * ctx.probes - reach counters
  * ctx.store  - simulated trace-file store (name -> producing event seq)
"""
import bisect
from fractions import Fraction


class RtError(Exception):
    """The runtime met something it does not model: a harness error, never a violation."""


class Ctx:
    def __init__(self, values=None):
        self.seq = 0
        self.hist = []
        self.probes = {}
        self.store = {}          # trace file name -> seq of the event that wrote it
        self.missing_reads = []  # (seq, reader, name)
        self.updates = 0
        self.values = values or {}   # name -> Fraction handed out by counting calls
        self.handed = []         # (seq, what, value)
        self.collecting = None   # prefix while between beginCollect/endCollect
        self.registered = []     # (rank, type, consumable) since beginCollect
        self.canvases = []
        self.update_owner = None
        self.section = None      # prefix of the last beginCollect (dump of that Einsum follows its endCollect)
        self.sections = []
        self.dump_cache = {}
        self.isects = []
        self.queried_isects = []
        self.live_iters = 0      # fiber iterators currently being walked by a for loop
        self.explicit_shapes = []   # (rank ids, shape, name) of every Tensor(...) built with shape=

    def probe(self, name, n=1):
        self.probes[name] = self.probes.get(name, 0) + n

    def event(self, *ev):
        self.seq += 1
        self.hist.append((self.seq,) + ev)
        return self.seq

    def iter_event(self):
        self.seq += 1
        if self.sections and self.collecting is not None:
            sec = self.sections[-1]
            if sec["first_iter"] is None:
                sec["first_iter"] = self.seq
            sec["last_iter"] = self.seq
        elif self.sections is not None and self.collecting is None and self.section is not None:
            self.iters_outside_collection = getattr(self, "iters_outside_collection", 0) + 1
        h = self.hist
        if h and h[-1][1] == "iter":
            s, _, first, last, n = h[-1]
            h[-1] = (s, "iter", first, self.seq, n + 1)
        else:
            h.append((self.seq, "iter", self.seq, self.seq, 1))


CTX = Ctx()


def reset(values=None):
    global CTX
    CTX = Ctx(values)
    return CTX


def _num(o, what):
    if isinstance(o, (FBase, Tensor)):
        raise RtError("%s expects a value, got %s" % (what, type(o).__name__))
    return o


def val(x):
    return x.v if isinstance(x, Payload) else x


class Payload:
    __slots__ = ("v",)

    def __init__(self, v=0):
        self.v = v

    def __iadd__(self, o):
        self.v += val(_num(o, "payload += x"))
        CTX.updates += 1
        CTX.event("update", "+=")
        return self

    def __ilshift__(self, o):
        self.v = val(_num(o, "payload <<= x"))
        CTX.updates += 1
        CTX.event("update", "<<=")
        return self

    def __mul__(self, o):
        return val(self) * val(_num(o, "payload * x"))
    __rmul__ = __mul__

    def __add__(self, o):
        return val(self) + val(_num(o, "payload + x"))
    __radd__ = __add__

    def __sub__(self, o):
        return val(self) - val(o)

    def __rsub__(self, o):
        return val(o) - val(self)

    def __bool__(self):
        return bool(self.v)

    def __eq__(self, o):
        return val(self) == val(o)

    def __hash__(self):
        return hash(self.v)

    def __repr__(self):
        return "P(%r)" % (self.v,)


def _need_fiber(x, what):
    """API misuse the real fibertree would not survive either: the emitted program handed a payload (or
    anything else) where a fiber is required.  Reported as a fault of the program, not of this model."""
    if not isinstance(x, FBase):
        raise RtError("%s expects a fiber, got %s" % (what, type(x).__name__))
    return x


class FBase:
    """Anything iterable as (coord, payload) pairs in increasing coord order."""

    def __and__(a, b):
        _need_fiber(b, "fiber & x")
        return Lazy(lambda: _and(a, b), lambda: (a.default(), b.default()))

    def __rand__(b, a):
        _need_fiber(a, "x & fiber")

    def __or__(a, b):
        _need_fiber(b, "fiber | x")
        return Lazy(lambda: _or(a, b), lambda: ("", a.default(), b.default()))

    def __ror__(b, a):
        _need_fiber(a, "x | fiber")

    def __rlshift__(b, a):
        _need_fiber(a, "x << fiber")

    def __iter__(self):
        ctx = CTX
        ctx.live_iters += 1
        try:
            for item in self._items():
                ctx.iter_event()
                yield item
        finally:
            ctx.live_iters -= 1

    def project(self, trans_fn=None, interval=None):
        def gen():
            items = [(trans_fn(c), p) for c, p in self._items()]
            if len(items) > 1 and items[0][0] > items[-1][0]:
                items.reverse()
                CTX.probe("project_reversed")
            for i in range(1, len(items)):
                if not items[i - 1][0] < items[i][0]:
                    raise RtError("project() produced non-increasing coordinates")
            for c, p in items:
                if interval is not None and not (interval[0] <= c < interval[1]):
                    CTX.probe("project_interval_clipped")
                    continue
                yield c, p
        return Lazy(gen, self.default)

    def prune(self, trans_fn=None):
        def gen():
            for i, (c, p) in enumerate(self._items()):
                if trans_fn(i, c, p):
                    yield c, p
                else:
                    CTX.probe("prune_dropped")
        return Lazy(gen, self.default)

    def trace(self, *a, **k):
        CTX.event("fiber.trace", _plain(a), _plain(k))
        return None


def _ckey(c):
    return c


def _bisect(coords, c):
    try:
        return bisect.bisect_left(coords, c)
    except TypeError as e:
        raise RtError("look-up with a coordinate of another kind than the fiber's: %s" % e)


def _cmp_guard(fn):
    """comparing coordinates of different kinds (a flattened tuple against an integer) is a fault of the
    program that paired the two fibers, not of this model"""
    def wrapped(a, b):
        try:
            for item in fn(a, b):
                yield item
        except TypeError as e:
            if "not supported between" in str(e):
                raise RtError("coordinates of different kinds are compared: %s" % e)
            raise
    return wrapped


def _and(a, b):
    ia, ib = a._items(), b._items()
    ea = next(ia, None)
    eb = next(ib, None)
    while ea is not None and eb is not None:
        if ea[0] == eb[0]:
            yield ea[0], (ea[1], eb[1])
            ea = next(ia, None)
            eb = next(ib, None)
        elif ea[0] < eb[0]:
            ea = next(ia, None)
        else:
            eb = next(ib, None)


def _or(a, b):
    ia, ib = a._items(), b._items()
    ea = next(ia, None)
    eb = next(ib, None)
    while ea is not None or eb is not None:
        if eb is None or (ea is not None and ea[0] < eb[0]):
            yield ea[0], ("A", ea[1], b.default())
            ea = next(ia, None)
        elif ea is None or eb[0] < ea[0]:
            yield eb[0], ("B", a.default(), eb[1])
            eb = next(ib, None)
        else:
            yield ea[0], ("AB", ea[1], eb[1])
            ea = next(ia, None)
            eb = next(ib, None)


_and = _cmp_guard(_and)
_or = _cmp_guard(_or)


class Lazy(FBase):
    def __init__(self, genf, deff):
        self.genf = genf
        self.deff = deff

    def _items(self):
        return iter(self.genf())

    def default(self):
        return self.deff()


class Fiber(FBase):
    def __init__(self, depth=1, coords=None, payloads=None):
        # depth = number of ranks at or below this fiber (1 = leaf fiber)
        self.depth = depth
        self.coords = coords if coords is not None else []
        self.payloads = payloads if payloads is not None else []

    def _new(self):
        return Payload(0) if self.depth <= 1 else Fiber(self.depth - 1)

    def default(self):
        return self._new()

    def _items(self):
        return iter(list(zip(self.coords, self.payloads)))

    def __len__(self):
        return len(self.coords)

    def getCoords(self):
        return list(self.coords)

    def getPayloadRef(self, *cs, trace=None):
        f = self
        for c in cs:
            if isinstance(f, Payload):
                raise RtError("getPayloadRef past a leaf")
            if type(c) is not int:
                c = norm_coord(c)     # 1.0 (from a rational projection) and 1 are the same coordinate
            i = _bisect(f.coords, c)
            if i < len(f.coords) and f.coords[i] == c:
                f = f.payloads[i]
            else:
                n = f._new()
                f.coords.insert(i, c)
                f.payloads.insert(i, n)
                f = n
        CTX.probe("getPayloadRef")
        if trace is not None:
            CTX.event("getPayloadRef.trace", trace)
        return f

    def getPayload(self, *cs, trace=None):
        f = self
        for c in cs:
            if isinstance(f, Payload):
                raise RtError("getPayload past a leaf")
            if type(c) is not int:
                c = norm_coord(c)
            i = _bisect(f.coords, c)
            if i < len(f.coords) and f.coords[i] == c:
                f = f.payloads[i]
            else:
                CTX.probe("getPayload_absent")
                f = f._new()
        CTX.probe("getPayload")
        if trace is not None:
            CTX.event("getPayload.trace", trace)
        return f

    def __lshift__(z, b):
        _need_fiber(b, "fiber << x")

        def gen():
            for c, pb in b._items():
                yield c, (z.getPayloadRef(c), pb)
        return Lazy(gen, lambda: (z.default(), b.default()))

    def iterRangeShapeRef(self, start, end, step=1):
        def gen():
            for c in range(start, end, step):
                yield c, self.getPayloadRef(c)
        return Lazy(gen, self.default)

    @staticmethod
    def fromLazy(it):
        items = list(it._items()) if isinstance(it, FBase) else list(it)
        depth = 1
        if items:
            p = items[0][1]
            if isinstance(p, Fiber):
                depth = p.depth + 1
        return Fiber(depth, [c for c, _ in items], [p for _, p in items])

    @staticmethod
    def intersection(*fibers, style=None):
        CTX.probe("Fiber.intersection")
        for f in fibers:
            _need_fiber(f, "Fiber.intersection")
        r = fibers[-1]
        for f in reversed(fibers[:-1]):
            r = f & r
        return r

    def coo(self, prefix=()):
        out = []
        for c, p in zip(self.coords, self.payloads):
            if isinstance(p, Fiber):
                out.extend(p.coo(prefix + (c,)))
            else:
                out.append((prefix + (c,), val(p)))
        return out


def build(depth, coo, merged=None):
    """coo: list of (coords tuple, value); duplicates are summed."""
    if depth == 0:
        return Payload(sum(v for _, v in coo))
    acc = {}
    for cs, v in coo:
        if cs in acc:
            acc[cs] += v
            if merged is not None:
                merged.append(cs)
        else:
            acc[cs] = v
    root = Fiber(depth)
    for cs in sorted(acc):
        f = root
        for c in cs[:-1]:
            if f.coords and f.coords[-1] == c:
                f = f.payloads[-1]
            else:
                n = f._new()
                f.coords.append(c)
                f.payloads.append(n)
                f = n
        f.coords.append(cs[-1])
        f.payloads.append(Payload(acc[cs]))
    return root


class Tensor:
    def __init__(self, rank_ids=None, name=None, shape=None, root=None):
        self.rank_ids = list(rank_ids)
        self.name = name
        self.shape = list(shape) if shape is not None else None
        n = len(self.rank_ids)
        self.root = root if root is not None else (Fiber(n) if n else Payload(0))
        if shape is not None:
            CTX.probe("tensor_explicit_shape")
            CTX.explicit_shapes.append((list(self.rank_ids), [val(x) for x in self.shape], name))

    @staticmethod
    def fromFiber(rank_ids=None, fiber=None, name=None, shape=None):
        if isinstance(fiber, Fiber) and fiber.depth != len(rank_ids) and (fiber.coords or len(rank_ids) != 1):
            # an empty default fiber may come with any depth; otherwise ranks must match
            if fiber.coords:
                raise RtError("fromFiber: %d rank ids for a fiber of depth %d" % (len(rank_ids), fiber.depth))
        if isinstance(fiber, Fiber) and not fiber.coords:
            fiber.depth = len(rank_ids)
        return Tensor(rank_ids, name, root=fiber)

    def getRoot(self):
        return self.root

    def getRankIds(self):
        return list(self.rank_ids)

    def getName(self):
        return self.name

    def setRankIds(self, rank_ids=None):
        if len(rank_ids) != len(self.rank_ids):
            raise RtError("setRankIds: %r for tensor with ranks %r" % (rank_ids, self.rank_ids))
        self.rank_ids = list(rank_ids)

    def coo(self):
        if not self.rank_ids:
            return [((), val(self.root))]
        return self.root.coo()

    def _rebuild(self, rank_ids, coo, merged=None):
        return Tensor(rank_ids, self.name, root=build(len(rank_ids), coo, merged))

    def swizzleRanks(self, rank_ids=None):
        if sorted(rank_ids) != sorted(self.rank_ids):
            raise RtError("swizzleRanks(%r) on %r" % (rank_ids, self.rank_ids))
        perm = [self.rank_ids.index(r) for r in rank_ids]
        if sorted(perm) != list(range(len(self.rank_ids))):
            raise RtError("swizzleRanks(%r) on %r" % (rank_ids, self.rank_ids))
        CTX.probe("swizzleRanks")
        return self._rebuild(rank_ids, [(tuple(cs[i] for i in perm), v) for cs, v in self.coo()])

    def _split_ids(self, depth):
        r = self.rank_ids[depth]
        return self.rank_ids[:depth] + [r + ".1", r + ".0"] + self.rank_ids[depth + 1:]

    def splitUniform(self, step, depth=0, pre_halo=0, post_halo=0):
        if not (isinstance(step, int) and step > 0):
            raise RtError("splitUniform step %r" % (step,))
        out = []
        for cs, v in self.coo():
            c = cs[depth]
            pmin = max(0, -(-(c - post_halo - step + 1) // step))
            pmax = (c + pre_halo) // step
            n = 0
            for p in range(pmin, pmax + 1):
                if p * step - pre_halo <= c < (p + 1) * step + post_halo:
                    out.append((cs[:depth] + (p * step,) + cs[depth:], v))
                    n += 1
            if n > 1:
                CTX.probe("halo_duplicated_element")
        CTX.probe("splitUniform")
        if pre_halo or post_halo:
            CTX.probe("splitUniform_halo")
        return self._rebuild(self._split_ids(depth), out)

    def _fibers_at(self, depth):
        """All (prefix, fiber) at the given depth."""
        level = [((), self.root)]
        for _ in range(depth):
            nxt = []
            for pre, f in level:
                for c, p in zip(f.coords, f.payloads):
                    nxt.append((pre + (c,), p))
            level = nxt
        return level

    def _split_by_starts(self, starts_of, depth, pre_halo=0, post_halo=0):
        out = []
        for pre, f in self._fibers_at(depth):
            starts = starts_of(f)
            for c, p in zip(f.coords, f.payloads):
                sub = [((c,) + cs, v) for cs, v in p.coo()] if isinstance(p, Fiber) else [((c,), val(p))]
                if pre_halo == 0 and post_halo == 0:
                    i = bisect.bisect_right(starts, c) - 1
                    if i < 0:
                        CTX.probe("split_dropped_below_first_boundary")
                        continue
                    for cs, v in sub:
                        out.append((pre + (starts[i],) + cs, v))
                else:
                    for i, s in enumerate(starts):
                        e = starts[i + 1] if i + 1 < len(starts) else None
                        if s - pre_halo <= c and (e is None or c < e + post_halo):
                            for cs, v in sub:
                                out.append((pre + (s,) + cs, v))
        return self._rebuild(self._split_ids(depth), out)

    def splitEqual(self, size, depth=0, pre_halo=0, post_halo=0):
        if not (isinstance(size, int) and size > 0):
            raise RtError("splitEqual size %r" % (size,))
        CTX.probe("splitEqual")
        return self._split_by_starts(lambda f: f.coords[::size], depth, pre_halo, post_halo)

    def splitNonUniform(self, splits, depth=0, pre_halo=0, post_halo=0):
        if isinstance(splits, Fiber):
            starts = splits.getCoords()
        elif isinstance(splits, FBase):
            starts = [c for c, _ in splits._items()]
        else:
            starts = list(splits)
        CTX.probe("splitNonUniform")
        if not starts:
            CTX.probe("splitNonUniform_empty_leader")
        return self._split_by_starts(lambda f: starts, depth, pre_halo, post_halo)

    def flattenRanks(self, depth=0, levels=1, coord_style="tuple"):
        def flat(t):
            r = ()
            for x in t:
                r += x if isinstance(x, tuple) else (x,)
            return r
        out = []
        for cs, v in self.coo():
            seg = cs[depth:depth + levels + 1]
            new = flat(seg) if coord_style == "tuple" else seg[-1]
            out.append((cs[:depth] + (new,) + cs[depth + levels + 1:], v))
        rid = self.rank_ids[:depth] + ["+".join(self.rank_ids[depth:depth + levels + 1])] + \
            self.rank_ids[depth + levels + 1:]
        merged = []
        t = self._rebuild(rid, out, merged)
        if merged:
            CTX.probe("mergeRanks_duplicate_coords", len(merged))
            if coord_style == "tuple":
                raise RtError("flattenRanks produced duplicate tuple coordinates")
        CTX.probe("flattenRanks" if coord_style == "tuple" else "mergeRanks")
        return t

    def mergeRanks(self, depth=0, levels=1, coord_style="absolute"):
        if coord_style != "absolute":
            raise RtError("mergeRanks coord_style %r" % (coord_style,))
        return self.flattenRanks(depth, levels, coord_style)

    def unflattenRanks(self, depth=0, levels=1):
        out = []
        for cs, v in self.coo():
            t = cs[depth]
            if not (isinstance(t, tuple) and len(t) == levels + 1):
                raise RtError("unflattenRanks(levels=%d) on coordinate %r" % (levels, t))
            out.append((cs[:depth] + t + cs[depth + 1:], v))
        names = self.rank_ids[depth].split("+")
        if len(names) != levels + 1:
            names = ["?"] * (levels + 1)
        rid = self.rank_ids[:depth] + names + self.rank_ids[depth + 1:]
        CTX.probe("unflattenRanks")
        return self._rebuild(rid, out)


def make_tensor(name, rank_ids, coo):
    return Tensor(rank_ids, name, root=build(len(rank_ids), list(coo)))


# ---------------------------------------------------------------- canvas

class Canvas:
    def __init__(self, tensors):
        self.tensors = tensors
        self.ranks_at_creation = [list(t.rank_ids) if isinstance(t, Tensor) else None for t in tensors]
        self.names = [t.name if isinstance(t, Tensor) else None for t in tensors]
        self.acts = []
        self.displayed = False
        self.updates_at_creation = CTX.updates
        self.updates_at_display = None

    def addActivity(self, *pts, spacetime=None, **kw):
        if kw:
            raise RtError("addActivity keywords %r" % (sorted(kw),))
        CTX.event("addActivity", len(pts))
        self.acts.append((_plain(pts), _plain(spacetime), CTX.updates))


def createCanvas(*tensors):
    c = Canvas(tensors)
    CTX.canvases.append(c)
    CTX.event("createCanvas", [t.name if isinstance(t, Tensor) else repr(t) for t in tensors])
    return c


def displayCanvas(c):
    c.displayed = True
    c.updates_at_display = CTX.updates
    CTX.event("displayCanvas")


def _plain(x):
    if isinstance(x, Payload):
        return val(x)
    if isinstance(x, (tuple, list)):
        return [_plain(y) for y in x]
    if isinstance(x, dict):
        return {str(k): _plain(v) for k, v in x.items()}
    if isinstance(x, Tensor):
        return "Tensor:%s:%s" % (x.name, "".join(x.rank_ids))
    if isinstance(x, Fraction):
        return str(x)
    if isinstance(x, (int, str, bool)) or x is None:
        return x
    if isinstance(x, float):
        return repr(x)
    return type(x).__name__


def data_api():
    return dict(Tensor=Tensor, Fiber=Fiber, createCanvas=createCanvas, displayCanvas=displayCanvas)


# canonical dumps ----------------------------------------------------------

def norm_coord(c):
    """1.0 and 1 are the same coordinate."""
    if isinstance(c, tuple):
        return tuple(norm_coord(x) for x in c)
    if isinstance(c, float) and c == int(c):
        return int(c)
    if isinstance(c, Fraction) and c.denominator == 1:
        return int(c)
    return c


def tensor_dump(t):
    """(rank ids, sorted list of (coords, value)) with stored zeros dropped."""
    items = []
    for cs, v in t.coo():
        if v:
            items.append((tuple(norm_coord(c) for c in cs), v))
    items.sort(key=repr)
    return list(t.rank_ids), items
