"""
Metrics-mode stand-ins for the fibertree metrics API: inert with respect to tensor
data, recording with respect to everything else.  Every call is appended to the
run's history (model/rt.py CTX) with a global sequence number; file-like calls act
on the simulated trace store; counting calls hand out exact values (spaced powers
of four as Fractions, so any sum of handed-out values decomposes uniquely and a
value added twice is visible).
"""
from fractions import Fraction

from model import rt


def _ctx():
    return rt.CTX


def _hand(kind, detail):
    """Hand out the next counting value; remember who got it."""
    c = _ctx()
    i = len(c.handed)
    v = Fraction(4) ** i
    boost = c.values.get("boost_index")
    if boost is not None and boost == i:
        v = v * Fraction(4) ** 60
    c.handed.append({"seq": c.seq + 1, "index": i, "section": c.section, "kind": kind, "detail": detail,
                     "value": v})
    c.event("hand", kind, rt._plain(detail), i)
    return v


class _Lazy1(dict):
    """dict that creates entries on first access with a factory(key)"""

    def __init__(self, factory):
        super().__init__()
        self._factory = factory

    def __missing__(self, key):
        v = self._factory(key)
        self[key] = v
        return v


class _IterNum:
    def copy(self):
        return _IterNum()


class _MetricsAPI:
    def beginCollect(self, prefix=None):
        c = _ctx()
        c.event("beginCollect", prefix, c.collecting)
        c.collecting = prefix
        c.section = prefix
        c.registered = []
        c.sections.append({"prefix": prefix, "begin": c.seq, "end": None, "registered": c.registered,
                           "isects": [], "first_iter": None, "last_iter": None})

    def endCollect(self):
        c = _ctx()
        c.event("endCollect", c.collecting)
        if c.collecting is not None:
            for rank, type_, consumable in c.registered:
                c.store.setdefault("%s-%s-%s.csv" % (c.collecting, rank, type_), c.seq)
            c.sections[-1]["end"] = c.seq
        c.collecting = None

    def trace(self, rank, type_=None, consumable=False):
        c = _ctx()
        c.event("Metrics.trace", rank, type_, consumable, c.collecting)
        c.registered.append((rank, type_, consumable))

    def registerRank(self, rank):
        _ctx().event("registerRank", rank)

    def matchRanks(self, a, b):
        _ctx().event("matchRanks", a, b)

    def associateShape(self, rank, shape):
        _ctx().event("associateShape", rank, rt._plain(shape))

    def getIter(self):
        _ctx().event("getIter")
        return _IterNum()

    def consumeTrace(self, rank, type_):
        c = _ctx()
        c.event("consumeTrace", rank, type_, c.collecting)
        return ("trace", c.collecting, rank, type_)

    def dump(self):
        c = _ctx()
        c.event("Metrics.dump")
        sec = c.section
        cache = c.dump_cache.setdefault(sec, {})

        def compute(key):
            if key not in cache:
                cache[key] = _hand("compute", key)
            return cache[key]
        return {"Compute": _Lazy1(compute)}


class _TrafficAPI:
    def filterTrace(self, input_fn, filter_fn, output_fn):
        c = _ctx()
        c.event("filterTrace", input_fn, filter_fn, output_fn)
        for fn in (input_fn, filter_fn):
            if fn not in c.store:
                c.missing_reads.append({"seq": c.seq, "reader": "filterTrace", "name": fn, "section": c.section})
        c.store.setdefault(output_fn, c.seq)

    def _traffic(self, which, bindings, formats, traces, capacity, width, rank_map=None):
        c = _ctx()
        names = [traces[k] for k in traces]
        c.event(which, rt._plain([list(k) for k in traces]), names, rt._plain(capacity), rt._plain(width),
                rt._plain(rank_map))
        for fn in names:
            if fn not in c.store:
                c.missing_reads.append({"seq": c.seq, "reader": which, "name": fn, "section": c.section})
        call = c.seq

        def per_tensor(t):
            return _Lazy1(lambda rw: _hand("traffic", [which, call, t, rw]))
        return [_Lazy1(per_tensor)]

    def buffetTraffic(self, bindings, formats, traces, capacity, width, rank_map=None):
        return self._traffic("buffetTraffic", bindings, formats, traces, capacity, width, rank_map)

    def cacheTraffic(self, bindings, formats, traces, capacity, width, rank_map=None):
        return self._traffic("cacheTraffic", bindings, formats, traces, capacity, width, rank_map)


class _ComputeAPI:
    def numSwaps(self, tensor, depth, radix, next_latency):
        c = _ctx()
        c.event("numSwaps", rt._plain(tensor), depth, rt._plain(radix), rt._plain(next_latency))
        return _hand("numSwaps", rt._plain(tensor))

    def numIters(self, trace_fn):
        c = _ctx()
        c.event("numIters", trace_fn)
        if trace_fn not in c.store:
            c.missing_reads.append({"seq": c.seq, "reader": "numIters", "name": trace_fn, "section": c.section})
        return _hand("numIters", trace_fn)


def _make_isect(kind):
    class _Isect:
        def __init__(self):
            c = _ctx()
            self.kind = kind
            self.created = c.event("intersector.new", kind, c.collecting)
            self.created_collecting = c.collecting
            self.fed = []
            self.id = len(c.isects)
            c.isects.append(self)
            if c.sections and c.collecting is not None:
                c.sections[-1]["isects"].append(self.id)

        def addTraces(self, *traces):
            c = _ctx()
            s = c.event("addTraces", self.id, rt._plain(traces), c.collecting, c.live_iters)
            self.fed.append({"seq": s, "collecting": c.collecting, "traces": rt._plain(traces)})

        def getNumIntersects(self):
            c = _ctx()
            c.event("getNumIntersects", self.id)
            c.queried_isects.append({"id": self.id, "seq": c.seq, "section": c.section})
            return _hand("isect", self.id)
    _Isect.__name__ = kind
    return _Isect


def Format(tensor, spec):
    _ctx().event("Format", rt._plain(tensor), sorted(map(str, spec)) if isinstance(spec, dict) else None)
    return ("Format", tensor, spec)


def api():
    return {
        "Metrics": _MetricsAPI(), "Traffic": _TrafficAPI(), "Compute": _ComputeAPI(), "Format": Format,
        "LeaderFollowerIntersector": _make_isect("LeaderFollowerIntersector"),
        "SkipAheadIntersector": _make_isect("SkipAheadIntersector"),
        "TwoFingerIntersector": _make_isect("TwoFingerIntersector"),
    }
