"""
Dense Einsum model: the reference for "what is computed".

Works from the Einsum expression *strings* with its own small reader (it does
not use teaal.parse).  Tensors are dict[coordinate tuple -> int] in *declared*
rank order; absent or out-of-range reads are 0; results drop zeros.
"""
import itertools
import re

_TOK = re.compile(r"\s*(?:(\d+)|([A-Za-z_][A-Za-z_0-9]*)|(.))")


def _tokens(s):
    out = []
    pos = 0
    s = s.strip()
    while pos < len(s):
        m = _TOK.match(s, pos)
        if not m:
            raise ValueError("dense: cannot tokenise %r at %d" % (s, pos))
        pos = m.end()
        if m.group(1) is not None:
            out.append(("num", int(m.group(1))))
        elif m.group(2) is not None:
            out.append(("name", m.group(2)))
        else:
            out.append(("sym", m.group(3)))
    return out


class _P:
    def __init__(self, s):
        self.t = _tokens(s)
        self.i = 0

    def peek(self, k=0):
        return self.t[self.i + k] if self.i + k < len(self.t) else ("eof", None)

    def next(self):
        t = self.peek()
        self.i += 1
        return t

    def expect(self, sym):
        t = self.next()
        if t != ("sym", sym):
            raise ValueError("dense: expected %r, got %r" % (sym, t))

    def iexpr(self):
        """affine index expression -> dict var -> coeff"""
        d = {}
        while True:
            neg = False
            if self.peek() == ("sym", "-"):
                self.next()
                neg = True
            t = self.next()
            if t[0] == "num":
                self.expect("*")
                v = self.next()
                assert v[0] == "name", v
                c = -t[1] if neg else t[1]
                d[v[1]] = d.get(v[1], 0) + c
            elif t[0] == "name":
                d[t[1]] = d.get(t[1], 0) + (-1 if neg else 1)
            else:
                raise ValueError("dense: bad index term %r" % (t,))
            if self.peek() == ("sym", "+"):
                self.next()
                continue
            break
        return d

    def access(self):
        """NAME '[' ranks ']' -> (name, [dict...])"""
        name = self.next()
        assert name[0] == "name", name
        self.expect("[")
        acc = []
        if self.peek() != ("sym", "]"):
            while True:
                acc.append(self.iexpr())
                if self.peek() == ("sym", ","):
                    self.next()
                    continue
                break
        self.expect("]")
        return name[1], acc

    def factor(self):
        if self.peek()[0] == "name" and self.peek(1) == ("sym", "["):
            n, acc = self.access()
            return ("tensor", n, acc)
        t = self.next()
        assert t[0] == "name", t
        return ("var", t[1])

    def term(self):
        if self.peek() == ("name", "take") and self.peek(1) == ("sym", "("):
            self.next()
            self.next()
            facs = []
            sel = None
            while True:
                if self.peek()[0] == "num":
                    sel = self.next()[1]
                    break
                facs.append(self.factor())
                self.expect(",")
            self.expect(")")
            return ("take", facs, sel)
        facs = [self.factor()]
        while self.peek() == ("sym", "*"):
            self.next()
            facs.append(self.factor())
        return ("times", facs, None)

    def einsum(self):
        out = self.access()
        self.expect("=")
        terms = [self.term()]
        while self.peek() == ("sym", "+"):
            self.next()
            terms.append(self.term())
        if self.peek()[0] != "eof":
            raise ValueError("dense: trailing tokens %r" % (self.t[self.i:],))
        return out, terms


def parse_expr(s):
    return _P(s).einsum()


def output_name(expr):
    return parse_expr(expr)[0][0]


def expr_tensors(expr):
    """names of tensors read by the expression, in order of appearance"""
    _, terms = parse_expr(expr)
    out = []
    for _, facs, _ in terms:
        for f in facs:
            if f[0] == "tensor" and f[1] not in out:
                out.append(f[1])
    return out


def expr_scalars(expr):
    _, terms = parse_expr(expr)
    out = []
    for _, facs, _ in terms:
        for f in facs:
            if f[0] == "var" and f[1] not in out:
                out.append(f[1])
    return out


def index_vars(expr):
    """index variables in order of first appearance: output first, then terms"""
    (on, oacc), terms = parse_expr(expr)
    out = []
    for d in oacc:
        for v in d:
            if v not in out:
                out.append(v)
    for _, facs, _ in terms:
        for f in facs:
            if f[0] == "tensor":
                for d in f[2]:
                    for v in d:
                        if v not in out:
                            out.append(v)
    return out


def var_extents(expr, decl, extents):
    """extent of each index variable.  A variable that indexes a rank directly
    (coefficient 1, alone) takes that rank's extent; all variables of the
    supported class do so somewhere (e.g. q in O[q], s in F[s])."""
    (oname, oacc), terms = parse_expr(expr)
    vext = {}

    def note(name, acc):
        for rank, d in zip(decl[name], acc):
            if len(d) == 1 and list(d.values()) == [1]:
                v = list(d)[0]
                e = extents[rank]
                vext[v] = min(vext[v], e) if v in vext else e
    note(oname, oacc)
    for _, facs, _ in terms:
        for f in facs:
            if f[0] == "tensor":
                note(f[1], f[2])
    for v in index_vars(expr):
        if v not in vext:
            raise ValueError("dense: no extent for index variable %r in %r" % (v, expr))
    return vext


def eval_einsum(expr, decl, extents, tensors, scalars):
    """-> dict coords(declared order of output) -> value (zeros dropped)"""
    (oname, oacc), terms = parse_expr(expr)
    vext = var_extents(expr, decl, extents)
    vs = sorted(vext)
    res = {}
    oshape = [extents[r] for r in decl[oname]]
    for vals in itertools.product(*[range(vext[v]) for v in vs]):
        env = dict(zip(vs, vals))

        def coord(acc):
            return tuple(sum(c * env[v] for v, c in d.items()) for d in acc)
        total = 0
        for kind, facs, sel in terms:
            fv = []
            for f in facs:
                if f[0] == "var":
                    fv.append(scalars[f[1]])
                else:
                    fv.append(tensors[f[1]].get(coord(f[2]), 0))
            if kind == "times":
                p = 1
                for x in fv:
                    p *= x
            else:
                p = fv[sel] if all(fv) else 0
            total += p
        if total:
            oc = coord(oacc)
            if all(0 <= c < s for c, s in zip(oc, oshape)):
                res[oc] = res.get(oc, 0) + total
    return {k: v for k, v in res.items() if v}


def eval_cascade(exprs, decl, extents, inputs, scalars):
    """inputs: name -> dict; returns dict name -> dict for every tensor incl. intermediates.
    An output written by several Einsums is overwritten (last one wins) - the
    generators never do that."""
    tensors = {k: dict(v) for k, v in inputs.items()}
    order = []
    for e in exprs:
        o = output_name(e)
        tensors[o] = eval_einsum(e, decl, extents, tensors, scalars)
        order.append(o)
    return tensors
