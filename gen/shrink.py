"""
Structured shrinking over the spec IR: yields simpler (spec, meta, inputs)
candidates; the caller keeps a candidate iff the same violation class persists
on the same hash seeds.  Candidates the compiler rejects simply do not fail the
same way and are dropped by the caller.
"""
import copy
import re

from gen import classes
from model import dense


def _clone(case):
    return copy.deepcopy(case)


def _reparam(spec, meta, inputs):
    """recompute level params after a spec/extent change; None if impossible"""
    syms = meta.get("syms", {})
    out = []
    for inp in inputs:
        inp = dict(inp)
        try:
            inp["params"] = classes.level_params(spec, inp["extents"], syms, strict=len(spec["exprs"]) == 1)
        except (classes.AmbiguousNames, KeyError):
            return None
        extra = (meta.get("extra_params") or {})
        inp["params"].update(extra)
        out.append(inp)
    return out


def _used_tensors(spec):
    used = []
    for e in spec["exprs"]:
        for t in [dense.output_name(e)] + dense.expr_tensors(e):
            if t not in used:
                used.append(t)
    return used


def _prune(spec, inputs):
    used = _used_tensors(spec)
    spec["decl"] = {t: rs for t, rs in spec["decl"].items() if t in used}
    if spec.get("rank_order"):
        spec["rank_order"] = {t: rs for t, rs in spec["rank_order"].items() if t in used} or None
    outs = [dense.output_name(e) for e in spec["exprs"]]
    ranks = set()
    for rs in spec["decl"].values():
        ranks.update(rs)
    new_inputs = []
    for inp in inputs:
        inp = dict(inp)
        tensors = {}
        for t in spec["decl"]:
            if t in outs:
                continue
            tensors[t] = inp["tensors"].get(t, [])
        inp["tensors"] = tensors
        scal = set()
        for e in spec["exprs"]:
            scal.update(dense.expr_scalars(e))
        inp["scalars"] = {k: v for k, v in (inp.get("scalars") or {}).items() if k in scal}
        new_inputs.append(inp)
    return new_inputs


def _strip_level(name):
    m = re.match(r"^([A-Za-z]+?)(\d+)$", name)
    return (m.group(1), int(m.group(2))) if m else (name, None)


def _drop_level_from_orders(spec, einsum, root, n_old):
    """rank `root` went from n_old directives to n_old-1: drop level name root<n_old>
    from loop order / spacetime; when no directive is left, root0 becomes root."""
    top = root + str(n_old)

    def fix(name):
        base, suffix = (name.split(".", 1) + [None])[:2] if "." in name else (name, None)
        if base == top:
            return None
        if n_old - 1 == 0 and base == root + "0":
            base = root
        return base + ("." + suffix if suffix else "")
    lo = spec.get("loop_order")
    if lo and einsum in lo:
        lo[einsum] = [y for y in (fix(x) for x in lo[einsum]) if y is not None]
    st = spec.get("spacetime")
    if st and einsum in st:
        for key in ("space", "time"):
            st[einsum][key] = [y for y in (fix(x) for x in st[einsum][key]) if y is not None]


def _einsum_ranks(spec, out):
    """rank names an Einsum's bindings may mention: its loop ranks (incl. partition levels) and root ranks"""
    expr = [e for e in spec["exprs"] if dense.output_name(e) == out]
    if not expr:
        return set()
    names = set(v.upper() for v in dense.index_vars(expr[0]))
    for x in (spec.get("loop_order") or {}).get(out) or []:
        names.add(x)
    for key, dirs in ((spec.get("partitioning") or {}).get(out) or {}).items():
        ks = [x.strip() for x in key.strip("() ").split(",")]
        root = "".join(ks)
        n = len([d for d in dirs if not d.startswith(("follow", "flatten"))])
        names.add(root)
        for i in range(n + 1):
            names.add(root + str(i))
    return names


def _fix_bindings(spec):
    """Keep a metrics-mode spec self-consistent after something was dropped: bindings, formats and spacetime of
    dropped Einsums / tensors / ranks go as well (a shrunk spec that merely became inconsistent is not a
    smaller instance of the same failure)."""
    if not spec.get("bindings"):
        return spec
    outs = [dense.output_name(e) for e in spec["exprs"]]
    used = set(_used_tensors(spec))
    b2 = {}
    for o, bl in spec["bindings"].items():
        if o not in outs:
            continue
        expr = [e for e in spec["exprs"] if dense.output_name(e) == o][0]
        mine = set([o] + dense.expr_tensors(expr))
        ranks = _einsum_ranks(spec, o)
        nbl = []
        for ent in bl:
            if "component" not in ent:
                nbl.append(ent)
                continue
            nb = []
            for b in ent.get("bindings") or []:
                if "tensor" in b and b["tensor"] not in mine:
                    continue
                if "leader" in b and b["leader"] not in mine:
                    continue
                if "rank" in b and b["rank"] not in ranks:
                    continue
                if b.get("evict-on") not in (None, "root") and b["evict-on"] not in ranks:
                    continue
                if any(r not in ranks for r in (b.get("init-ranks") or []) + (b.get("final-ranks") or [])):
                    continue
                nb.append(b)
            if nb or not ent.get("bindings"):
                nbl.append(dict(ent, bindings=nb))
        b2[o] = nbl
    spec["bindings"] = b2
    if spec.get("format"):
        spec["format"] = {t: f for t, f in spec["format"].items() if t in used}
    for sec in ("spacetime", "loop_order", "partitioning"):
        if spec.get(sec):
            spec[sec] = {o: v for o, v in spec[sec].items() if o in outs} or None
    return spec


def _metrics_candidates(spec, meta, inputs):
    """drop one component entry / one binding of an Einsum"""
    for o, bl in (spec.get("bindings") or {}).items():
        for i, ent in enumerate(bl):
            if "component" not in ent:
                continue
            s = copy.deepcopy(spec)
            del s["bindings"][o][i]
            yield s, meta, inputs
        for i, ent in enumerate(bl):
            bs = ent.get("bindings") or []
            # single bindings only of functional components (one rank of a sequencer / intersector); the
            # bindings of a memory belong together (coord + payload of one tensor, one style)
            if "component" in ent and len(bs) > 1 and all("tensor" not in b for b in bs):
                for j in range(len(bs)):
                    s = copy.deepcopy(spec)
                    del s["bindings"][o][i]["bindings"][j]
                    yield s, meta, inputs


def candidates(spec, meta, inputs):
    if spec.get("bindings"):
        # class M: only steps that keep the specification inside the generators' domain (rank orders concordant
        # with the loop order, consistent eager subtrees, leaders first, ...): whole component entries, trailing
        # Einsums, input sets, extents, non-zeros.  Dropping factors, ranks, mapping sections or single bindings
        # can turn the spec into one the unchanged tree mis-compiles too (inconsistent bindings), and a replay
        # file must not reproduce on the unchanged tree.
        for c in _metrics_candidates(spec, meta, inputs):
            yield c
        for s, m, ins in _candidates(spec, meta, inputs, safe_only=True):
            if s is not spec:
                s = _fix_bindings(s)
            yield s, m, ins
    else:
        for c in _candidates(spec, meta, inputs):
            yield c


def _candidates(spec, meta, inputs, safe_only=False):
    # 1. fewer input sets
    if len(inputs) > 1:
        for i in range(len(inputs)):
            yield spec, meta, [inputs[i]]
    # 2. drop mapping sections
    for key in ("spacetime", "rank_order"):
        if spec.get(key) and not safe_only:
            s = copy.deepcopy(spec)
            s[key] = None
            yield s, meta, inputs
    if spec.get("loop_order") and not safe_only:
        for e in list(spec["loop_order"]):
            s = copy.deepcopy(spec)
            del s["loop_order"][e]
            if not s["loop_order"]:
                s["loop_order"] = None
            yield s, meta, inputs
    if spec.get("rank_order") and not safe_only:
        for t in list(spec["rank_order"]):
            s = copy.deepcopy(spec)
            del s["rank_order"][t]
            yield s, meta, inputs
    # 3. cascades: drop last / first Einsum
    if len(spec["exprs"]) > 1:
        for idx in ((len(spec["exprs"]) - 1,) if safe_only else (len(spec["exprs"]) - 1, 0)):
            s = copy.deepcopy(spec)
            dropped = s["exprs"].pop(idx)
            o = dense.output_name(dropped)
            for sec in ("partitioning", "loop_order", "spacetime"):
                if s.get(sec) and o in s[sec]:
                    del s[sec][o]
                    if not s[sec]:
                        s[sec] = None
            ins = copy.deepcopy(inputs)
            still_read = any(o in dense.expr_tensors(e) for e in s["exprs"])
            if still_read:
                # the dropped output becomes a user-supplied input: give it the dense value
                for inp in ins:
                    tensors = {n: {tuple(cs): v for cs, v in items} for n, items in inp["tensors"].items()}
                    try:
                        val = dense.eval_cascade(spec["exprs"][:idx + 1], spec["decl"], inp["extents"], tensors,
                                                 inp.get("scalars") or {})[o]
                    except Exception:
                        val = {}
                    inp["tensors"][o] = [[list(cs), v] for cs, v in sorted(val.items())]
            ins2 = _prune(s, ins)
            r = _reparam(s, meta, ins2)
            if r is not None:
                yield s, meta, r
    # 4. partitioning: drop a rank key, drop a level
    part = {} if safe_only else (spec.get("partitioning") or {})
    for e, d in part.items():
        for key, dirs in d.items():
            names = [x.strip() for x in key.strip("() ").split(",")]
            real = [x for x in dirs if not x.startswith(("follow", "flatten"))]
            if len(names) == 1 and real and len(real) == len(dirs):
                # drop the innermost directive
                s = copy.deepcopy(spec)
                s["partitioning"][e][key] = dirs[:-1]
                n_old = len(dirs)
                # levels renumber: root<i> -> root<i-1> for i>=1, innermost root0 merges away
                root = names[0]
                lo = (s.get("loop_order") or {}).get(e)

                def ren(name):
                    base, dot, suf = name.partition(".")
                    b, lv = _strip_level(base)
                    if b == root and lv is not None:
                        if lv == 0:
                            return None
                        lv -= 1
                        base = root if (n_old - 1 == 0) else root + str(lv)
                    return base + dot + suf
                if lo:
                    s["loop_order"][e] = [y for y in (ren(x) for x in lo) if y is not None]
                st = (s.get("spacetime") or {}).get(e)
                if st:
                    for kk in ("space", "time"):
                        st[kk] = [y for y in (ren(x) for x in st[kk]) if y is not None]
                if not s["partitioning"][e][key]:
                    del s["partitioning"][e][key]
                r = _reparam(s, meta, inputs)
                if r is not None:
                    yield s, meta, r
    # 5. symbolic sizes -> literals
    syms = {} if safe_only else (meta.get("syms") or {})
    for name, val in syms.items():
        s = copy.deepcopy(spec)
        changed = False
        for e, d in (s.get("partitioning") or {}).items():
            for key, dirs in d.items():
                nd = [re.sub(r"([(.])%s\)" % re.escape(name), r"\g<1>%d)" % val, x) for x in dirs]
                if nd != dirs:
                    d[key] = nd
                    changed = True
        if changed:
            m = copy.deepcopy(meta)
            del m["syms"][name]
            r = _reparam(s, m, inputs)
            if r is not None:
                yield s, m, r
    # 6. drop a term / a factor
    for ei, expr in enumerate([] if safe_only else spec["exprs"]):
        lhs, rhs = expr.split("=", 1)
        if rhs.strip().startswith("take("):
            continue
        terms = [t.strip() for t in rhs.split("+")]
        # careful: '+' also appears inside index expressions; only split when no '[' nesting issue
        terms = _split_top(rhs, "+")
        if len(terms) > 1:
            for ti in range(len(terms)):
                s = copy.deepcopy(spec)
                s["exprs"][ei] = lhs.strip() + " = " + " + ".join(t for j, t in enumerate(terms) if j != ti)
                ins = _prune(s, copy.deepcopy(inputs))
                yield s, meta, ins
        for ti, term in enumerate(terms):
            facs = _split_top(term, "*")
            if len(facs) > 1:
                for fi in range(len(facs)):
                    s = copy.deepcopy(spec)
                    nt = list(terms)
                    nt[ti] = " * ".join(f for j, f in enumerate(facs) if j != fi)
                    s["exprs"][ei] = lhs.strip() + " = " + " + ".join(nt)
                    ins = _prune(s, copy.deepcopy(inputs))
                    yield s, meta, ins
    # 7. shrink extents
    fixed = set((meta.get("derived_extents") or {}).keys())
    for rank in sorted(inputs[0]["extents"]):
        e = inputs[0]["extents"][rank]
        if rank in fixed or e <= 1:
            continue
        for ne in sorted({max(1, e // 2), e - 1}):
            ins = copy.deepcopy(inputs)
            ok = True
            for inp in ins:
                inp["extents"][rank] = ne
                _rederive(meta, inp["extents"])
                for t, items in inp["tensors"].items():
                    shape = [inp["extents"][r] for r in spec["decl"][t]]
                    inp["tensors"][t] = [it for it in items if all(c < s_ for c, s_ in zip(it[0], shape))]
            m = copy.deepcopy(meta)
            if "extents" in m:
                m["extents"] = dict(ins[0]["extents"])
            r = _reparam(spec, m, ins)
            if ok and r is not None:
                yield spec, m, r
    # 8. drop non-zeros
    for t in sorted(inputs[0]["tensors"]):
        items = inputs[0]["tensors"][t]
        n = len(items)
        if n == 0:
            continue
        cuts = [(0, n // 2), (n // 2, n)] if n > 3 else [(i, i + 1) for i in range(n)]
        for a, b in cuts:
            ins = copy.deepcopy(inputs)
            for inp in ins:
                its = inp["tensors"][t]
                inp["tensors"][t] = its[:a] + its[b:]
            yield spec, meta, ins


def _rederive(meta, extents):
    for rank, (terms, const) in (meta.get("derived_extents") or {}).items():
        extents[rank] = sum(c * (extents[r] - 1) for r, c in terms) + 1 + const


def _split_top(s, sep):
    out = []
    depth = 0
    cur = ""
    for ch in s:
        if ch in "[(":
            depth += 1
        elif ch in "])":
            depth -= 1
        if ch == sep and depth == 0:
            out.append(cur.strip())
            cur = ""
        else:
            cur += ch
    out.append(cur.strip())
    return out
