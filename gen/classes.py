"""
Seeded workload generators.  Every function takes a random.Random and returns a
spec dict (gen/spec.py) plus a `meta` dict the oracles and evidence use.  All
choices come from the PRNG handed in; nothing here iterates a set or calls hash().
"""
import itertools

from model import dense

RANKS = ["K", "M", "N", "J", "P", "Q", "I"]   # "I" on purpose: the compiler names temporary occupancy ranks <root><n>I
INPUTS = ["A", "B", "C", "D", "E", "F", "G", "H", "L", "R", "S", "W", "X", "Y"]
SIZES = [1, 2, 3, 5, 7]


def _choice_w(rng, pairs):
    tot = sum(w for _, w in pairs)
    x = rng.random() * tot
    for v, w in pairs:
        x -= w
        if x < 0:
            return v
    return pairs[-1][0]


def _perm(rng, xs):
    xs = list(xs)
    rng.shuffle(xs)
    return xs


def _subset(rng, xs, p):
    return [x for x in xs if rng.random() < p]


def _access(ranks):
    return "[" + ", ".join(r.lower() for r in ranks) + "]"


# --------------------------------------------------------------------- class P

def gen_plain(rng, max_ranks=3, allow_take=True, allow_scalar=True, allow_out_only=True,
              product_only=False, min_ranks=1):
    nr = _choice_w(rng, [(1, 2), (2, 5), (3, 4), (4, 1)])
    nr = max(min_ranks, min(nr, max_ranks))
    ranks = rng.sample(RANKS, nr)
    kind = "times"
    if allow_take and not product_only and rng.random() < 0.15:
        kind = "take"
    nterms = 1 if (kind == "take" or product_only) else _choice_w(rng, [(1, 6), (2, 3), (3, 1)])
    names = list(INPUTS)
    if rng.random() < 0.15:
        # a tensor whose name contains another tensor's name (A, AB)
        names.insert(1, names[0] + "B")
    decl = {}
    terms = []
    scalars = []
    for _ in range(nterms):
        nf = _choice_w(rng, [(1, 3), (2, 5), (3, 2)]) if kind == "times" else rng.randint(2, 3)
        # assign every rank to at least one factor
        fr = [[] for _ in range(nf)]
        for r in ranks:
            owners = [i for i in range(nf) if rng.random() < 0.5] or [rng.randrange(nf)]
            if kind == "take":
                owners = list(range(nf)) if rng.random() < 0.7 else owners
            for i in owners:
                fr[i].append(r)
        if kind == "take":
            # no rank-0 operand inside take(): "non-zero" of a scalar tensor is a corner
            # the reference runtime does not model (DESIGN 4.2)
            for i in range(nf):
                if not fr[i]:
                    fr[i].append(rng.choice(ranks))
        facs = []
        for i in range(nf):
            t = names.pop(0)
            rs = _perm(rng, fr[i])
            decl[t] = rs
            facs.append(t + _access(rs))
        if kind == "times" and allow_scalar and rng.random() < 0.15:
            s = "x" + "abc"[len(scalars)]
            scalars.append(s)
            facs.insert(rng.randrange(len(facs) + 1), s)
        if kind == "take":
            terms.append("take(" + ", ".join(facs) + ", %d)" % rng.randrange(nf))
        else:
            terms.append(" * ".join(facs))
    out_ranks = _perm(rng, _subset(rng, ranks, 0.6))
    out_only = []
    if allow_out_only and nterms == 1 and rng.random() < 0.1:
        extra = [r for r in RANKS if r not in ranks]
        out_only = [rng.choice(extra)]
        out_ranks.insert(rng.randrange(len(out_ranks) + 1), out_only[0])
    decl_out = out_ranks
    # declaration order: shuffle where the output sits
    order = list(decl.items())
    order.insert(rng.randrange(len(order) + 1), ("Z", list(decl_out)))
    decl = dict(order)
    expr = "Z" + _access(decl_out) + " = " + " + ".join(terms)
    spec = {"decl": decl, "exprs": [expr], "rank_order": None, "partitioning": None,
            "loop_order": None, "spacetime": None, "arch": None, "bindings": None, "format": None}
    if rng.random() < 0.4:
        ro = {}
        for t, rs in decl.items():
            if len(rs) > 1 and rng.random() < 0.5:
                ro[t] = _perm(rng, rs)
        if ro:
            spec["rank_order"] = ro
    all_ranks = default_loop_order(spec, "Z")
    if rng.random() < 0.6:
        spec["loop_order"] = {"Z": _perm(rng, all_ranks)}
    meta = {"ranks": all_ranks, "out_only": out_only, "kind": kind, "nterms": nterms, "scalars": scalars}
    return spec, meta


def default_loop_order(spec, out, expr=None):
    """Output ranks as written, then remaining ranks in order of first appearance
    (independent of teaal; index variable x <-> rank X)."""
    if expr is None:
        expr = [e for e in spec["exprs"] if dense.output_name(e) == out][0]
    return [v.upper() for v in dense.index_vars(expr)]


# --------------------------------------------------------------------- class S

def shape_stack(rng, root, extent, max_levels=3, symbolic_p=0.25, monotone=False):
    """A stack of 1-3 shape directives for rank `root` of the given extent.
    monotone: every inner step divides the enclosing step (used for output-only
    ranks, whose levels are walked with iterRangeShapeRef and clipped against the
    extent only, not against the enclosing partition: known finding KF-OUTONLY-CLIP,
    covered by its witness; DESIGN section 5)."""
    n = _choice_w(rng, [(1, 5), (2, 4), (3, 1)])
    n = min(n, max_levels)
    items = []
    for j in range(n):
        kind = rng.choice(["uniform_shape", "uniform_shape", "nway_shape"])
        size = rng.choice(SIZES + [extent + 1])
        step = (extent - 1) // size + 1 if kind == "nway_shape" else size
        items.append((kind, size, step))
    if monotone:
        items.sort(key=lambda x: -x[2])
        # each inner step must divide the enclosing one (known finding KF-OUTONLY-CLIP)
        keep = [items[0]]
        for it in items[1:]:
            if keep[-1][2] % it[2] == 0:
                keep.append(it)
        items = keep
        n = len(items)
    dirs = []
    syms = {}
    for j, (kind, size, step) in enumerate(items):
        if rng.random() < symbolic_p:
            conventional = kind == "uniform_shape" and rng.random() < 0.7
            name = (root + str(n - 1 - j)) if conventional else ("S" + root + "x" + str(j))
            syms[name] = size
            dirs.append("%s(%s)" % (kind, name))
        else:
            dirs.append("%s(%d)" % (kind, size))
    return dirs, syms


def levels_of(root, ndirs):
    return [root + str(i) for i in range(ndirs, -1, -1)]


def loop_order_over(rng, groups, mode, keep_ordered=()):
    """groups: list of lists (levels of one rank, outermost first).  mode 'any' is an
    arbitrary permutation, except that groups whose root is in keep_ordered keep
    their levels outermost-to-innermost."""
    if mode == "any":
        flat = _perm(rng, [l for g in groups for l in g])
        for g in groups:
            if g and g[0].rstrip("0123456789") in keep_ordered and len(g) > 1:
                pos = sorted(flat.index(l) for l in g)
                for p_, l in zip(pos, g):
                    flat[p_] = l
        return flat
    gl = [list(g) for g in groups]
    out = []
    while any(gl):
        g = rng.choice([g for g in gl if g])
        out.append(g.pop(0))
    return out


def gen_shape(rng, invert_out_only=False):
    spec, meta = gen_plain(rng)
    ranks = meta["ranks"]
    extents = gen_extents(rng, spec)
    part = {}
    syms = {}
    chosen = [r for r in ranks if rng.random() < 0.6] or [rng.choice(ranks)]
    for r in chosen:
        dirs, s = shape_stack(rng, r, extents[r], monotone=r in meta["out_only"])
        # the same symbolic name may not mean two sizes
        if any(k in syms and syms[k] != v for k, v in s.items()):
            continue
        part[r] = dirs
        syms.update(s)
    if not part:
        r = rng.choice(ranks)
        part[r] = ["uniform_shape(%d)" % rng.choice(SIZES)]
    spec["partitioning"] = {"Z": part}
    groups = [levels_of(r, len(part[r])) if r in part else [r] for r in ranks]
    mode = _choice_w(rng, [("default", 2), ("ordered", 4), ("any", 4)])
    if mode == "default":
        spec["loop_order"] = None
    else:
        # levels of an output-only rank are kept outermost-to-innermost: the inverted
        # order is known finding KF-OUTONLY-INVERTED (witness only)
        keep = () if invert_out_only else tuple(meta["out_only"])
        spec["loop_order"] = {"Z": loop_order_over(rng, groups, mode, keep)}
    meta.update({"part": part, "syms": syms, "lo_mode": mode, "extents": extents,
                 "nlevels": sum(len(d) for d in part.values()), "npart": len(part)})
    return spec, meta


# --------------------------------------------------------------------- inputs

def step_of(directive, extent, syms):
    kind = directive[:directive.index("(")]
    inner = directive[directive.index("(") + 1:directive.rindex(")")].strip()
    if kind == "uniform_occupancy":
        inner = inner.split(".", 1)[1].strip()
    size = int(inner) if inner.isdigit() else syms[inner]
    if kind == "nway_shape":
        return (extent - 1) // size + 1
    return size


def level_params(spec, extents, syms, strict=True):
    """Names the user supplies besides rank extents: symbolic sizes and level
    extents ROOT<i> (= the step of the directive that creates level i).
    strict=False: a level-extent name that two Einsums of a cascade would need with
    different values is not supplied at all (it is only read for output-only and
    index-math ranks, which cascades do not contain)."""
    params = dict(syms)
    dropped = set()
    for einsum, d in (spec.get("partitioning") or {}).items():
        for key, dirs in d.items():
            names = [x.strip() for x in key.strip("() ").split(",")]
            if len(names) != 1:
                continue
            root = names[0]
            real = [x for x in dirs if not x.startswith(("follow", "flatten"))]
            if not real or root not in extents:
                continue
            n = len(real)
            vals = {root + str(n): extents[root]}
            for j, dv in enumerate(real):
                if dv.startswith("uniform_occupancy"):
                    continue
                vals[root + str(n - 1 - j)] = step_of(dv, extents[root], syms)
            for k, v in vals.items():
                if k in dropped:
                    continue
                if k in params and params[k] != v:
                    # a symbolic size already claims this name with another value:
                    # the spec is ambiguous for the user; caller should reject it
                    if strict or k in syms:
                        raise AmbiguousNames(k)
                    del params[k]
                    dropped.add(k)
                    continue
                params[k] = v
    return params


class AmbiguousNames(Exception):
    pass


def gen_extents(rng, spec, max_extent=8, budget=400):
    ranks = []
    for rs in spec["decl"].values():
        for r in rs:
            if r not in ranks:
                ranks.append(r)
    while True:
        ext = {r: rng.randint(1, max_extent) for r in ranks}
        ok = True
        for rs in spec["decl"].values():
            n = 1
            for r in rs:
                n *= ext[r]
            if n > budget:
                ok = False
        if ok:
            return ext
        max_extent = max(2, max_extent - 1)


def gen_tensor(rng, shape, density, lo=1, hi=9):
    items = []
    for cs in itertools.product(*[range(s) for s in shape]):
        if rng.random() < density:
            items.append([list(cs), rng.randint(lo, hi)])
    return items


def gen_inputs(rng, spec, extents, syms, style):
    """style: dense | sparse | empty_one"""
    outs = [dense.output_name(e) for e in spec["exprs"]]
    names = [t for t in spec["decl"] if t not in outs]
    tensors = {}
    empty = rng.choice(names) if (style == "empty_one" and names) else None
    for t in names:
        shape = [extents[r] for r in spec["decl"][t]]
        if style == "dense":
            dens = 1.0
        elif t == empty:
            dens = 0.0
        else:
            dens = rng.choice([0.3, 0.5, 0.7])
        tensors[t] = gen_tensor(rng, shape, dens)
    scalars = {}
    for e in spec["exprs"]:
        for s in dense.expr_scalars(e):
            scalars[s] = rng.randint(2, 5)
    return {"extents": dict(extents), "params": level_params(spec, extents, syms, strict=len(spec["exprs"]) == 1),
            "scalars": scalars, "tensors": tensors, "style": style}


def input_sets(rng, spec, syms, extents=None, max_extent=8):
    ext = extents or gen_extents(rng, spec, max_extent)
    return [gen_inputs(rng, spec, ext, syms, style) for style in ("dense", "sparse", "empty_one")]


# --------------------------------------------------------------------- class O

def holders_of(spec, expr=None):
    """rank -> input tensors (of the expression) that hold it"""
    expr = expr or spec["exprs"][0]
    out = {}
    for t in dense.expr_tensors(expr):
        for r in spec["decl"][t]:
            out.setdefault(r, []).append(t)
    return out


def occ_stack(rng, root, holders, extent, allow_shape=True):
    dirs = []
    syms = {}
    if allow_shape and rng.random() < 0.3:
        dirs.append("uniform_shape(%d)" % rng.choice([2, 3, 4]))
    nocc = _choice_w(rng, [(1, 6), (2, 3)])
    total = len(dirs) + nocc
    leader = rng.choice(holders)
    for j in range(nocc):
        size = rng.choice([1, 2, 3, 5])
        # usually all occupancy levels of one rank follow the same leader; sometimes each level has its own
        if j and rng.random() < 0.35:
            leader = rng.choice(holders)
        if rng.random() < 0.2:
            name = root + str(total - 1 - len(dirs))
            syms[name] = size
            dirs.append("uniform_occupancy(%s.%s)" % (leader, name))
        else:
            dirs.append("uniform_occupancy(%s.%d)" % (leader, size))
    return dirs, syms


def gen_flatten2(rng):
    """Two flattenings of one tensor (e.g. A[I,J,K,L] with (I,K) and (J,L)), optionally with a
    second operand and an occupancy split of one flattened rank."""
    ranks = rng.sample(RANKS, 4)
    a_ranks = _perm(rng, ranks)
    decl = {"A": a_ranks}
    facs = ["A" + _access(a_ranks)]
    if rng.random() < 0.5:
        b_ranks = _perm(rng, _subset(rng, ranks, 0.5)) or [ranks[0]]
        decl["B"] = b_ranks
        facs.append("B" + _access(b_ranks))
        rng.shuffle(facs)
    out_ranks = _perm(rng, _subset(rng, ranks, 0.6))
    items = list(decl.items())
    items.insert(rng.randrange(len(items) + 1), ("Z", out_ranks))
    decl = dict(items)
    spec = {"decl": decl, "exprs": ["Z" + _access(out_ranks) + " = " + " * ".join(facs)], "rank_order": None,
            "partitioning": None, "loop_order": None, "spacetime": None, "arch": None, "bindings": None, "format": None}
    pr = _perm(rng, ranks)
    g1, g2 = pr[:2], pr[2:]
    part = {}
    pres = [None, None]
    # a group may contain a rank level that only exists after a split of that rank: by shape (static) or by
    # occupancy led by A (dynamic: the flattening then becomes applicable inside the loop over the upper level)
    both = rng.random() < 0.15
    for gi, g in enumerate((g1, g2)):
        if both or (gi == 1 and rng.random() < 0.35):
            pre = rng.choice(g)
            if both or rng.random() < 0.3:
                part[pre] = ["uniform_occupancy(A.%d)" % rng.choice([2, 3, 4])]
            else:
                part[pre] = ["uniform_shape(%d)" % rng.choice([2, 3, 4])]
            pres[gi] = pre
    g1 = [x + "0" if x == pres[0] else x for x in g1]
    g2 = [x + "0" if x == pres[1] else x for x in g2]
    pre = pres[1]
    part["(%s, %s)" % tuple(g1)] = ["flatten()"]
    part["(%s, %s)" % tuple(g2)] = ["flatten()"]
    f1, f2 = "".join(g1), "".join(g2)
    groups = [([pres[0] + "1"] if pres[0] else []) + [f1], ([pres[1] + "1"] if pres[1] else []) + [f2]]
    if rng.random() < 0.4 and not both:
        part[f1] = ["uniform_occupancy(A.%d)" % rng.choice([1, 2, 3])]
        groups[0] = groups[0][:-1] + [f1 + "1", f1 + "0"]
    spec["partitioning"] = {"Z": part}
    if rng.random() < 0.75:
        spec["loop_order"] = {"Z": loop_order_over(rng, groups, "ordered")}
    extents = gen_extents(rng, spec, 5)
    meta = {"ranks": ranks, "out_only": [], "kind": "times", "nterms": 1, "scalars": [], "part": part, "syms": {},
            "lo_mode": "ordered" if spec["loop_order"] else "default", "extents": extents, "omode": "flatten2",
            "flat": {"tensor": "A", "ranks": g1 + g2, "under_shape": pre, "nocc": 0}, "nlevels": len(part), "npart": len(part)}
    return spec, meta


def gen_flatten_out(rng):
    """flatten() of 2-3 ranks that all belong to the output (the flattened output has to be
    un-flattened in the footer), optionally followed by an occupancy split of the flattened rank."""
    nr = rng.choice([2, 3, 3, 4])
    ranks = rng.sample(RANKS, nr)
    a_ranks = _perm(rng, ranks)
    out_ranks = list(a_ranks) if rng.random() < 0.5 else _perm(rng, ranks)
    decl = {"A": a_ranks}
    facs = ["A" + _access(a_ranks)]
    if rng.random() < 0.4:
        b_ranks = _perm(rng, _subset(rng, ranks, 0.6)) or [ranks[0]]
        decl["B"] = b_ranks
        facs.append("B" + _access(b_ranks))
    items = list(decl.items())
    items.insert(rng.randrange(len(items) + 1), ("Z", out_ranks))
    spec = {"decl": dict(items), "exprs": ["Z" + _access(out_ranks) + " = " + " * ".join(facs)], "rank_order": None,
            "partitioning": None, "loop_order": None, "spacetime": None, "arch": None, "bindings": None, "format": None}
    nf = min(nr, rng.choice([2, 3, 3]))
    # adjacent ranks of A in A's order (half the time), otherwise any ranks in any order
    if rng.random() < 0.5:
        i0 = rng.randint(0, nr - nf)
        fr = a_ranks[i0:i0 + nf]
    else:
        fr = rng.sample(ranks, nf)
    name = "".join(fr)
    part = {"(" + ", ".join(fr) + ")": ["flatten()"]}
    nocc = rng.choice([0, 0, 1, 2])
    if nocc:
        part[name] = ["uniform_occupancy(A.%d)" % rng.choice([1, 2, 3, 4]) for _ in range(nocc)]
    spec["partitioning"] = {"Z": part}
    flat_levels = [name + str(i) for i in range(nocc, -1, -1)] if nocc else [name]
    groups = [[r] for r in ranks if r not in fr] + [flat_levels]
    if rng.random() < 0.6:
        spec["loop_order"] = {"Z": loop_order_over(rng, groups, "ordered")}
    extents = gen_extents(rng, spec, 5)
    meta = {"ranks": ranks, "out_only": [], "kind": "times", "nterms": 1, "scalars": [], "part": part, "syms": {},
            "lo_mode": "ordered" if spec["loop_order"] else "default", "extents": extents, "omode": "flatten_out",
            "flat": {"tensor": "A", "ranks": fr, "under_shape": None, "nocc": nocc}, "nlevels": len(part) + nocc, "npart": len(part)}
    return spec, meta


def gen_occ_multi(rng):
    """Three or four operands that all hold one rank, which gets 2-3 occupancy levels with a leader chosen per
    level (followers of one level are split at that level's leader's boundaries; with three holders a wrong
    leader separates elements that must meet)."""
    r = rng.choice(RANKS)
    others = [x for x in RANKS if x != r]
    rng.shuffle(others)
    nops = rng.choice([3, 3, 4])
    decl = {}
    facs = []
    pool = others[:2]
    for i in range(nops):
        extra = _subset(rng, pool, 0.5)
        rs = _perm(rng, [r] + extra)
        t = INPUTS[i]
        decl[t] = rs
        facs.append(t + _access(rs))
    used = []
    for rs in decl.values():
        for x in rs:
            if x not in used:
                used.append(x)
    out_ranks = _perm(rng, _subset(rng, used, 0.6))
    items = list(decl.items())
    items.insert(rng.randrange(len(items) + 1), ("Z", out_ranks))
    spec = {"decl": dict(items), "exprs": ["Z" + _access(out_ranks) + " = " + " * ".join(facs)], "rank_order": None,
            "partitioning": None, "loop_order": None, "spacetime": None, "arch": None, "bindings": None, "format": None}
    extents = gen_extents(rng, spec)
    extents[r] = rng.randint(4, 9)
    holders = list(decl)
    dirs = []
    if rng.random() < 0.25:
        dirs.append("uniform_shape(%d)" % rng.choice([3, 4, 5]))
    for j in range(rng.choice([2, 2, 3])):
        dirs.append("uniform_occupancy(%s.%d)" % (rng.choice(holders), rng.choice([1, 2, 3, 4])))
    part = {r: dirs}
    spec["partitioning"] = {"Z": part}
    ranks = default_loop_order(spec, "Z")
    groups = [levels_of(x, len(dirs)) if x == r else [x] for x in ranks]
    if rng.random() < 0.85:
        spec["loop_order"] = {"Z": loop_order_over(rng, groups, "ordered")}
    meta = {"ranks": ranks, "out_only": [], "kind": "times", "nterms": 1, "scalars": [], "part": part, "syms": {},
            "lo_mode": "ordered" if spec["loop_order"] else "default", "extents": extents, "omode": "occ_multi",
            "flat": None, "nlevels": len(dirs), "npart": 1}
    return spec, meta


def gen_sigma_like(rng):
    """The SIGMA mapping generalised: Z[m,n] = A[k,m(,j)] * B[k,(j,)n]; K is split first (by shape, or dynamically
    by occupancy led by A), its lower level is flattened with M (and J, in any position of the tuple), the
    flattened rank may be split by occupancy again, and N - held only by B, which is looked up by coordinate
    inside the flattened loop - may be split dynamically too."""
    three = rng.random() < 0.5
    a_ranks = _perm(rng, ["K", "M"] + (["J"] if three else []))
    b_ranks = _perm(rng, ["K", "N"] + (["J"] if three and rng.random() < 0.7 else []))
    decl = {"A": a_ranks, "B": b_ranks}
    out_ranks = _perm(rng, ["M", "N"])
    items = list(decl.items())
    items.insert(rng.randrange(3), ("Z", out_ranks))
    facs = ["A" + _access(a_ranks), "B" + _access(b_ranks)]
    if rng.random() < 0.3:
        facs.reverse()
    spec = {"decl": dict(items), "exprs": ["Z" + _access(out_ranks) + " = " + " * ".join(facs)], "rank_order": None,
            "partitioning": None, "loop_order": None, "spacetime": None, "arch": None, "bindings": None, "format": None}
    part = {}
    dyn_pre = rng.random() < 0.4
    part["K"] = ["uniform_occupancy(A.%d)" % rng.choice([2, 3, 4])] if dyn_pre else ["uniform_shape(%d)" % rng.choice([2, 3, 4])]
    group = _perm(rng, ["M", "K0"] + (["J"] if three else []))
    flat = "".join(group)
    part["(" + ", ".join(group) + ")"] = ["flatten()"]
    nocc = _choice_w(rng, [(0, 4), (1, 4), (2, 2)])
    if nocc:
        part[flat] = ["uniform_occupancy(A.%d)" % rng.choice([1, 2, 3, 5]) for _ in range(nocc)]
    flat_levels = [flat + str(i) for i in range(nocc, -1, -1)] if nocc else [flat]
    n_levels = ["N"]
    if rng.random() < 0.4:
        part["N"] = ["uniform_occupancy(B.%d)" % rng.choice([1, 2, 3])]
        n_levels = ["N1", "N0"]
    spec["partitioning"] = {"Z": part}
    groups = [["K1"] + flat_levels, n_levels]
    if three and "J" not in group:
        groups.append(["J"])
    spec["loop_order"] = {"Z": loop_order_over(rng, groups, "ordered")}
    extents = {"K": rng.randint(3, 8), "M": rng.randint(1, 4), "N": rng.randint(1, 5), "J": rng.randint(1, 3)}
    extents = {r: v for r, v in extents.items() if any(r in rs for rs in decl.values())}
    meta = {"ranks": ["M", "N", "K"] + (["J"] if three else []), "out_only": [], "kind": "times", "nterms": 1, "scalars": [],
            "part": part, "syms": {}, "lo_mode": "ordered", "extents": extents, "omode": "sigma_like",
            "flat": {"tensor": "A", "ranks": group, "under_shape": "K", "nocc": nocc}, "nlevels": len(part) + nocc, "npart": len(part)}
    return spec, meta


def gen_occ(rng):
    x = rng.random()
    if x < 0.1:
        return gen_sigma_like(rng)
    x = rng.random()
    if x < 0.12:
        return gen_flatten2(rng)
    if x < 0.27:
        return gen_flatten_out(rng)
    if x < 0.37:
        return gen_occ_multi(rng)
    spec, meta = gen_plain(rng, max_ranks=4, allow_take=False, allow_out_only=False, product_only=True,
                           min_ranks=2)
    ranks = meta["ranks"]
    extents = gen_extents(rng, spec)
    hold = holders_of(spec)
    part = {}
    syms = {}
    mode = _choice_w(rng, [("occ", 6), ("flatten", 4)])
    groups = []
    flat_info = None
    if mode == "flatten":
        cands = [t for t in dense.expr_tensors(spec["exprs"][0]) if len(spec["decl"][t]) >= 2]
        if not cands:
            mode = "occ"
    if mode == "flatten":
        t = rng.choice(cands)
        nf = 2 if len(spec["decl"][t]) == 2 or rng.random() < 0.7 else 3
        fr = rng.sample(spec["decl"][t], nf)
        under_shape = rng.random() < 0.3
        key_ranks = list(fr)
        pre = None
        if under_shape:
            # sigma pattern: split one of the ranks first (by shape, or dynamically by occupancy led by the
            # flattened tensor), flatten its lower level
            pre = rng.choice(fr)
            if rng.random() < 0.3:
                part[pre] = ["uniform_occupancy(%s.%d)" % (t, rng.choice([1, 2, 3, 4]))]
            else:
                part[pre] = ["uniform_shape(%d)" % rng.choice([2, 3, 4])]
            key_ranks = [r + "0" if r == pre else r for r in fr]
        flat_name = "".join(key_ranks)
        part["(" + ", ".join(key_ranks) + ")"] = ["flatten()"]
        nocc = _choice_w(rng, [(0, 3), (1, 5), (2, 2)])
        if nocc:
            leaders = [x for x in dense.expr_tensors(spec["exprs"][0]) if all(r in spec["decl"][x] for r in fr)]
            leader = rng.choice(leaders)
            part[flat_name] = ["uniform_occupancy(%s.%d)" % (leader, rng.choice([1, 2, 3, 5])) for _ in range(nocc)]
        flat_levels = [flat_name + str(i) for i in range(nocc, -1, -1)] if nocc else [flat_name]
        side = None
        rest = [r for r in ranks if r not in fr]
        if rest and rng.random() < 0.3:
            # a rank outside the flattening is split dynamically as well (its holder may be a tensor that is only
            # looked up by coordinate inside the flattened loop)
            side = rng.choice(rest)
            part[side] = ["uniform_occupancy(%s.%d)" % (rng.choice(hold[side]), rng.choice([1, 2, 3]))]
        for r in ranks:
            if r in fr:
                continue
            groups.append(levels_of(r, 1) if r == side else [r])
        g = ([pre + "1"] if pre else []) + flat_levels
        groups.append(g)
        flat_info = {"tensor": t, "ranks": fr, "under_shape": pre, "nocc": nocc}
    else:
        chosen = [r for r in ranks if rng.random() < 0.5] or [rng.choice(ranks)]
        for r in chosen:
            dirs, s = occ_stack(rng, r, hold[r], extents[r])
            if any(k in syms and syms[k] != v for k, v in s.items()):
                continue
            part[r] = dirs
            syms.update(s)
        groups = [levels_of(r, len(part[r])) if r in part else [r] for r in ranks]
    spec["partitioning"] = {"Z": part}
    if rng.random() < 0.8:
        spec["loop_order"] = {"Z": loop_order_over(rng, groups, "ordered")}
        lo_mode = "ordered"
    else:
        spec["loop_order"] = None
        lo_mode = "default"
    meta.update({"part": part, "syms": syms, "lo_mode": lo_mode, "extents": extents, "omode": mode,
                 "flat": flat_info, "nlevels": sum(len(d) for d in part.values()), "npart": len(part)})
    return spec, meta


# --------------------------------------------------------------------- class A

def _iterm(c, v):
    return v if c == 1 else "%d * %s" % (c, v)


def gen_affine(rng, allow_k3=False, allow_occ=False, two_red_p=0.2, reverse_follow_p=0.0):
    """Integer-affine accesses: convolution with stride/dilation, subsampling; 1-D or 2-D,
    optional plain channel ranks; optional shape partitioning of the output rank with the
    input rank following it."""
    ndim = 1 if rng.random() < 0.7 else 2
    dims = []
    names = [("Q", "S", "W"), ("P", "R", "H")]
    for d in range(ndim):
        q, s, w = names[d]
        has_filter = rng.random() < 0.85
        a = rng.choice([1, 1, 1, 2, 2, 3])
        b = rng.choice([1, 1, 1, 2, 2, 3, 4]) if has_filter else 0
        if not has_filter:
            a = rng.choice([1, 2, 2, 3])
        dims.append({"q": q, "s": s if has_filter else None, "w": w, "a": a, "b": b})
    chan_c = rng.random() < 0.25      # contracted channel rank C in I and F
    chan_m = rng.random() < 0.25      # output channel rank M in F and O
    any_filter = any(d["s"] for d in dims)
    if not any_filter:
        chan_c = chan_m = False
    i_ranks, i_acc, f_ranks, f_acc, o_ranks, o_acc = [], [], [], [], [], []
    if chan_m:
        o_ranks.append("M"); o_acc.append("m"); f_ranks.append("M"); f_acc.append("m")
    if chan_c:
        i_ranks.append("C"); i_acc.append("c"); f_ranks.append("C"); f_acc.append("c")
    for d in dims:
        o_ranks.append(d["q"]); o_acc.append(d["q"].lower())
        i_ranks.append(d["w"])
        terms = [_iterm(d["a"], d["q"].lower())]
        if d["a"] == 2 and rng.random() < 0.25:
            # the same stride written with a repeated index variable: I[q + q + s]
            terms = [d["q"].lower(), d["q"].lower()]
        if d["s"]:
            terms.append(_iterm(d["b"], d["s"].lower()))
            f_ranks.append(d["s"]); f_acc.append(d["s"].lower())
        i_acc.append(" + ".join(terms))
    # a second reduction variable inside the first affine access: O[q] = I[q + s + 2*v] * F[s] * G[v]
    two_red = ndim == 1 and dims[0]["s"] and not chan_c and not chan_m and rng.random() < two_red_p
    if two_red:
        dims[0]["c"] = rng.choice([1, 1, 2])
        i_acc[-1] = i_acc[-1] + " + " + _iterm(dims[0]["c"], "v")
    # a second output variable inside the first affine access: O[p2, q] = I[p2 + q + s] * F[s]
    two_out = ndim == 1 and dims[0]["s"] and not chan_c and not chan_m and not two_red and rng.random() < 0.2
    if two_out:
        o_ranks.insert(0, "P"); o_acc.insert(0, "p")
        i_acc[-1] = "p + " + i_acc[-1]
    decl_items = [("I", i_ranks), ("O", o_ranks)]
    facs = ["I[" + ", ".join(i_acc) + "]"]
    if any_filter:
        decl_items.insert(rng.randrange(3), ("F", f_ranks))
        facs.append("F[" + ", ".join(f_acc) + "]")
        if rng.random() < 0.5:
            facs.reverse()
    if two_red:
        decl_items.append(("G", ["V"]))
        facs.insert(rng.randrange(len(facs) + 1), "G[v]")
    # a third operand living on the (possibly partitioned) output rank: I[q+s] * B[q] * F[s], I[2*q] * B[q]
    third = not two_out and rng.random() < (0.2 if any_filter else 0.4)
    if third:
        decl_items.append(("B", [dims[0]["q"]]))
        facs.insert(rng.randrange(len(facs) + 1), "B[%s]" % dims[0]["q"].lower())
    # a second tensor read through the same affine access: H[q+s] * F[s] * I[q+s] (two projected
    # tensors co-iterated at every level of the index-math rank)
    twin = any_filter and rng.random() < 0.15
    if twin:
        decl_items.insert(rng.randrange(len(decl_items) + 1), ("H", list(i_ranks)))
        facs.insert(rng.randrange(len(facs) + 1), "H[" + ", ".join(i_acc) + "]")
    expr = "O[" + ", ".join(o_acc) + "] = " + " * ".join(facs)
    spec = {"decl": dict(decl_items), "exprs": [expr], "rank_order": None, "partitioning": None,
            "loop_order": None, "spacetime": None, "arch": None, "bindings": None, "format": None}
    # extents
    extents = {}
    derived = {}
    for d in dims:
        extents[d["q"]] = rng.randint(1, 6)
        terms = [(d["q"], d["a"])]
        if two_out:
            extents["P"] = rng.randint(1, 3)
            terms.append(("P", 1))
        if d["s"]:
            extents[d["s"]] = rng.randint(1, 4)
            terms.append((d["s"], d["b"]))
        if d.get("c"):
            extents["V"] = rng.randint(1, 3)
            terms.append(("V", d["c"]))
        derived[d["w"]] = (terms, 0)
        extents[d["w"]] = sum(c * (extents[r] - 1) for r, c in terms) + 1
    if chan_c:
        extents["C"] = rng.randint(1, 3)
    if chan_m:
        extents["M"] = rng.randint(1, 3)
    # partitioning of the output rank, input rank following
    part = {}
    groups = []
    plevels = {}
    any_occ = False
    extra_params = {}
    for d in dims:
        if rng.random() < (0.7 if allow_occ else 0.4):
            halo = bool(d["s"])
            nlev = 1
            if rng.random() < 0.3 and (allow_k3 or not halo):
                nlev = 2
            dirs = []
            for j in range(nlev):
                kind = rng.choice(["uniform_shape", "uniform_shape", "nway_shape"])
                dirs.append("%s(%d)" % (kind, rng.choice([1, 2, 3, 4])))
            if nlev == 2:
                # keep steps non-increasing
                st = [step_of(x, extents[d["q"]], {}) for x in dirs]
                if st[0] < st[1]:
                    dirs.reverse()
            occ = allow_occ and rng.random() < 0.4
            if occ:
                # occupancy split of the index-math rank led by a projected tensor (outside C03/C04's stated
                # domains: used for the closedness / ordering properties only, results are not judged)
                leader = rng.choice(["I", "H"] if twin else ["I"])
                dirs = (["uniform_shape(%d)" % rng.choice([2, 3, 4])] if rng.random() < 0.35 else []) + \
                    ["uniform_occupancy(%s.%d)" % (leader, rng.choice([1, 2, 3]))]
                nlev = len(dirs)
                any_occ = True
                # the compiler reads the level extent <ROOT><i> of an occupancy level in some loop orders
                # (iterRangeShapeRef over the bottom level); the user would have to supply something
                for i in range(nlev):
                    extra_params[d["q"] + str(i)] = extents[d["q"]]
            if d["s"] and nlev == 1 and not occ and rng.random() < 0.25:
                # partition the filter rank instead; the accessed rank follows it
                part[d["s"]] = dirs
                part[d["w"]] = ["follow(%s)" % d["s"]]
                plevels[d["s"]] = nlev
                d["part_rank"] = d["s"]
            elif reverse_follow_p and not occ and rng.random() < reverse_follow_p:
                # the accessed rank is partitioned and the output rank follows it (text-only checks: the unchanged
                # tree gives such a split no halo, so results are not judged for it)
                part[d["w"]] = dirs
                part[d["q"]] = ["follow(%s)" % d["w"]]
                plevels[d["q"]] = nlev
                d["part_rank"] = d["q"]
            else:
                part[d["q"]] = dirs
                part[d["w"]] = ["follow(%s)" % d["q"]]
                plevels[d["q"]] = nlev
                d["part_rank"] = d["q"]
    # loop order
    lo_mode = "default" if rng.random() < 0.2 else "explicit"
    if lo_mode == "explicit":
        for d in dims:
            # the output rank must be looped itself (projecting into the output is rejected);
            # the second loop rank is the filter rank or the accessed tensor's own rank
            if d["s"]:
                pick = [d["q"], rng.choice([d["s"], d["w"]])]
                rng.shuffle(pick)
            else:
                pick = [d["q"]]
            pr = d.get("part_rank")
            if pr is not None and pr in plevels:
                n = plevels[pr]
                # upper levels named after the partitioned rank, bottom level may be any of the picked ranks
                uppers = [pr + str(i) for i in range(n, 0, -1)]
                if pr == d["s"] and d["s"] not in pick:
                    pick = [d["q"], d["s"]]
                    rng.shuffle(pick)
                lowers = [(x + "0") if x in (pr, d["w"]) else x for x in pick]
                groups.append(uppers + lowers)
            else:
                groups.append(pick)
        if chan_c:
            groups.append(["C"])
        if chan_m:
            groups.append(["M"])
        if two_out:
            groups.append(["P"])
        if two_red:
            groups.append(["V"])
        spec["loop_order"] = {"O": loop_order_over(rng, groups, "ordered")}
    if part:
        spec["partitioning"] = {"O": part}
    meta = {"ranks": default_loop_order(spec, "O"), "dims": dims, "extents": extents, "derived_extents": derived,
            "part": part, "syms": {}, "lo_mode": lo_mode, "nlevels": sum(plevels.values()), "npart": len(plevels),
            "out_only": [], "kind": "affine", "third": third, "two_out": two_out, "two_red": two_red, "twin": twin, "occ": any_occ, "extra_params": extra_params}
    return spec, meta


# --------------------------------------------------------------------- class K

def gen_cascade(rng, n_min=2, n_max=4, partition_p=0.5):
    """Cascade of 2-4 Einsums; later Einsums read earlier outputs; per-Einsum mappings
    (shape stacks, occupancy stacks, loop orders)."""
    n = rng.randint(n_min, n_max)
    fresh = list(INPUTS)
    out_names = ["T", "U", "V", "Z"][:n - 1] + ["Z"] if n < 5 else None
    out_names = (["T", "U", "V"][:n - 1]) + ["Z"]
    decl = {}
    exprs = []
    part = {}
    lo = {}
    syms = {}
    einsum_meta = []
    extents = {}
    produced = []   # (name, ranks)
    earlier_inputs = []   # (name, ranks) of user-supplied tensors read by earlier Einsums
    for i in range(n):
        # ranks of this Einsum
        reuse = [p for p in produced if rng.random() < (0.8 if p is produced[-1] else 0.3)] if produced else []
        # an input read again by a later Einsum (both Einsums may then need the same swizzled / partitioned copy)
        if earlier_inputs and rng.random() < 0.35:
            reuse = reuse + [rng.choice(earlier_inputs)]
        base = []
        for _, rs in reuse:
            for r in rs:
                if r not in base:
                    base.append(r)
        want = _choice_w(rng, [(1, 2), (2, 5), (3, 3)])
        pool = [r for r in RANKS if r not in base]
        rng.shuffle(pool)
        ranks = base + pool[:max(0, want - len(base))]
        if not ranks:
            ranks = [pool[0]]
        for r in ranks:
            extents.setdefault(r, rng.randint(1, 6))
        nterms = 1 if (reuse and rng.random() < 0.7) or rng.random() < 0.7 else 2
        terms = []
        for t_i in range(nterms):
            facs = []
            covered = set()
            if t_i == 0:
                for name, rs in reuse:
                    facs.append((name, rs))
                    covered.update(rs)
            nfresh = _choice_w(rng, [(0, 2), (1, 5), (2, 2)]) if facs else _choice_w(rng, [(1, 4), (2, 5)])
            if nterms == 2 and t_i == 1 and nfresh == 0:
                nfresh = 1
            fr = [[] for _ in range(nfresh)]
            for r in ranks:
                if nfresh and (r not in covered or rng.random() < 0.5):
                    owners = [j for j in range(nfresh) if rng.random() < 0.5] or [rng.randrange(nfresh)]
                    if r not in covered:
                        covered.add(r)
                    for j in owners:
                        fr[j].append(r)
            if set(ranks) - covered:
                # needs a fresh tensor to cover the remaining ranks
                fr.append([r for r in ranks if r not in covered])
            for rs in fr:
                name = fresh.pop(0)
                rs = _perm(rng, rs)
                decl[name] = rs
                facs.append((name, rs))
                if rs:
                    earlier_inputs.append((name, rs))
            rng.shuffle(facs)
            terms.append(" * ".join(nm + _access(rs) for nm, rs in facs))
        out = out_names[i]
        out_ranks = _perm(rng, _subset(rng, ranks, 0.6))
        decl[out] = list(out_ranks)
        expr = out + _access(out_ranks) + " = " + " + ".join(terms)
        exprs.append(expr)
        produced.append((out, list(out_ranks)))
        # per-Einsum mapping
        tmp_spec = {"decl": decl, "exprs": [expr]}
        all_ranks = default_loop_order(tmp_spec, out, expr)
        em = {"out": out, "ranks": all_ranks, "kind": "plain"}
        groups = [[r] for r in all_ranks]
        flat_cands = [t for t in dense.expr_tensors(expr) if len([r for r in decl[t] if r in out_ranks]) >= 2]
        if rng.random() < 0.2 and nterms == 1 and flat_cands:
            # flatten 2-3 ranks of one operand that all belong to the output: the intermediate has to be
            # un-flattened again before the next Einsum reads it
            t = rng.choice(flat_cands)
            cand = [r for r in decl[t] if r in out_ranks]
            fr = rng.sample(cand, min(len(cand), rng.choice([2, 3, 3])))
            name = "".join(fr)
            p = {"(" + ", ".join(fr) + ")": ["flatten()"]}
            if rng.random() < 0.4:
                p[name] = ["uniform_occupancy(%s.%d)" % (t, rng.choice([1, 2, 3]))]
                flv = [name + "1", name + "0"]
            else:
                flv = [name]
            part[out] = p
            groups = [[r] for r in all_ranks if r not in fr] + [flv]
            em["kind"] = "flatten"
            em["part"] = p
            lo[out] = loop_order_over(rng, groups, "ordered")
        elif rng.random() < partition_p and nterms == 1:
            pk = rng.choice(["shape", "occ"])
            p = {}
            hold = holders_of(tmp_spec, expr)
            chosen = [r for r in all_ranks if rng.random() < 0.5] or [rng.choice(all_ranks)]
            for r in chosen:
                if pk == "shape":
                    dirs, s = shape_stack(rng, r, extents[r], max_levels=2, symbolic_p=0.0)
                else:
                    dirs, s = occ_stack(rng, r, hold[r], extents[r])
                    s = {}
                    dirs = [d for d in dirs if "." not in d or d.split(".")[1].rstrip(")").isdigit()] or \
                        ["uniform_occupancy(%s.2)" % hold[r][0]]
                p[r] = dirs
            part[out] = p
            groups = [levels_of(r, len(p[r])) if r in p else [r] for r in all_ranks]
            em["kind"] = pk
            em["part"] = p
        if rng.random() < 0.6 and out not in lo:
            lo[out] = loop_order_over(rng, groups, "ordered")
        einsum_meta.append(em)
    # declaration order shuffled
    items = list(decl.items())
    rng.shuffle(items)
    decl = dict(items)
    spec = {"decl": decl, "exprs": exprs, "rank_order": None, "partitioning": part or None,
            "loop_order": lo or None, "spacetime": None, "arch": None, "bindings": None, "format": None}
    if rng.random() < 0.4:
        ro = {}
        for t, rs in decl.items():
            if len(rs) > 1 and rng.random() < 0.4:
                ro[t] = _perm(rng, rs)
        spec["rank_order"] = ro or None
    meta = {"einsums": einsum_meta, "syms": syms, "extents": extents, "n": n,
            "nlevels": sum(len(d) for p in part.values() for d in p.values()), "npart": len(part)}
    return spec, meta


# --------------------------------------------------------------------- class T

def effective_loop_order(spec, out):
    """The loop ranks of Einsum `out`: the explicit loop order, else the canonical default
    (output ranks as written, then the rest by first appearance, each partitioned rank
    replaced in place by its levels outermost to innermost).  Flattening is not handled
    here (callers use explicit loop orders for flattened specs)."""
    lo = (spec.get("loop_order") or {}).get(out)
    if lo:
        return list(lo)
    base = default_loop_order(spec, out)
    part = (spec.get("partitioning") or {}).get(out) or {}
    res = []
    for r in base:
        if r in part:
            dirs = part[r]
            if dirs and dirs[0].startswith("follow("):
                # a rank that follows another rank is split into as many levels as that rank
                dirs = part.get(dirs[0][len("follow("):-1].strip(), [])
            n = len([d for d in dirs if not d.startswith(("follow", "flatten"))])
            res.extend(levels_of(r, n) if n else [r])
        else:
            res.append(r)
    return res


def add_spacetime(rng, spec, out, loop_ranks, allow_coord=True, no_coord=()):
    k = rng.randint(0, len(loop_ranks))
    idx = sorted(rng.sample(range(len(loop_ranks)), k))
    space = [loop_ranks[i] for i in idx]
    time = [r for r in loop_ranks if r not in space]
    rng.shuffle(time) if rng.random() < 0.2 else None

    def style(r):
        x = rng.random()
        if allow_coord and x < 0.35 and r.rstrip("0123456789") not in no_coord:
            return r + ".coord"
        if x < 0.6:
            return r + ".pos"
        return r
    st = {"space": [style(r) for r in space], "time": [style(r) for r in time]}
    if rng.random() < 0.25:
        st["opt"] = "slip"
    spec["spacetime"] = dict(spec.get("spacetime") or {})
    spec["spacetime"][out] = st
    return st


def gen_scalar(rng):
    """An Einsum without any loop rank: Z[] = A[] (* B[]) (* x)."""
    facs = ["A[]"] + (["B[]"] if rng.random() < 0.5 else [])
    decl = {"A": [], "Z": []}
    if len(facs) == 2:
        decl["B"] = []
    if rng.random() < 0.3:
        facs.insert(rng.randrange(len(facs) + 1), "xa")
    spec = {"decl": decl, "exprs": ["Z[] = " + " * ".join(facs)], "rank_order": None, "partitioning": None,
            "loop_order": None, "spacetime": None, "arch": None, "bindings": None, "format": None}
    meta = {"ranks": [], "out_only": [], "kind": "times", "nterms": 1, "scalars": ["xa"] if "xa" in facs else [],
            "part": {}, "syms": {}, "extents": {}, "nlevels": 0, "npart": 0}
    return spec, meta


def gen_spacetime(rng):
    if rng.random() < 0.04:
        spec, meta = gen_scalar(rng)
        st = add_spacetime(rng, spec, "Z", [])
        meta.update({"base": "P", "loop_ranks": [], "st": st})
        return spec, meta
    base = _choice_w(rng, [("P", 3), ("S", 4), ("O", 3), ("A", 3)])
    if base == "A":
        spec, meta = gen_affine(rng)
        for _ in range(3):
            # mostly partitioned index-math ranks: the interval code shares position counters with the display
            if meta["npart"] and spec.get("loop_order"):
                break
            spec, meta = gen_affine(rng)
        out = "O"
        if not spec.get("loop_order"):
            return gen_spacetime(rng)
        loop_ranks = list(spec["loop_order"][out])
        st = add_spacetime(rng, spec, out, loop_ranks)
        meta.update({"base": base, "loop_ranks": loop_ranks, "st": st, "out": out})
        return spec, meta
    if base == "P":
        spec, meta = gen_plain(rng)
        meta.update({"part": {}, "syms": {}, "extents": gen_extents(rng, spec), "nlevels": 0, "npart": 0})
    elif base == "S":
        spec, meta = gen_shape(rng)
    else:
        spec, meta = gen_occ(rng)
        if meta["omode"].startswith("flatten") and not spec.get("loop_order"):
            # default loop order of a flattened spec: let the explicit one be written
            return gen_spacetime(rng)
    loop_ranks = effective_loop_order(spec, "Z")
    # coordinate-style stamps on a flattened rank are known finding C16-FLATCOORD (witness only)
    flat_roots = []
    for key in (spec.get("partitioning") or {}).get("Z", {}):
        if key.startswith("("):
            flat_roots.append("".join(x.strip() for x in key.strip("() ").split(",")))
    st = add_spacetime(rng, spec, "Z", loop_ranks, no_coord=[f.rstrip("0123456789") for f in flat_roots] + flat_roots)
    meta.update({"base": base, "loop_ranks": loop_ranks, "st": st})
    return spec, meta


def flat_no_coord(spec, out):
    """Rank names that must not get a coordinate-style stamp: flattened ranks and their levels
    (known finding C16-FLATCOORD, witness only)."""
    roots = []
    for key in ((spec.get("partitioning") or {}).get(out) or {}):
        if key.startswith("("):
            roots.append("".join(x.strip() for x in key.strip("() ").split(",")))
    return [f.rstrip("0123456789") for f in roots] + roots


def gen_cascade_spacetime(rng):
    """Cascade (class K) in which some Einsums carry a spacetime and some do not (a later Einsum with slip,
    an earlier one without, ...): per-Einsum display state must not leak from one Einsum to the next."""
    spec, meta = gen_cascade(rng, n_max=3)
    outs = [dense.output_name(e) for e in spec["exprs"]]
    st_map = {}
    for o, em in zip(outs, meta["einsums"]):
        if rng.random() < 0.35:
            continue
        if em["kind"] in ("flatten", "occ") and not (spec.get("loop_order") or {}).get(o):
            continue
        loop_ranks = effective_loop_order(spec, o)
        flat_roots = []
        for key in ((spec.get("partitioning") or {}).get(o) or {}):
            if key.startswith("("):
                flat_roots.append("".join(x.strip() for x in key.strip("() ").split(",")))
        st = add_spacetime(rng, spec, o, loop_ranks, no_coord=[f.rstrip("0123456789") for f in flat_roots] + flat_roots)
        st_map[o] = {"st": st, "loop_ranks": loop_ranks}
    if not st_map:
        o = outs[-1]
        if not ((spec.get("partitioning") or {}).get(o)):
            loop_ranks = effective_loop_order(spec, o)
            st_map[o] = {"st": add_spacetime(rng, spec, o, loop_ranks), "loop_ranks": loop_ranks}
    meta.update({"base": "K", "st_map": st_map, "st": None, "loop_ranks": []})
    return spec, meta


# --------------------------------------------------------------------- mixtures

def gen_mixed(rng, weights=None):
    """Draw from the legal classes; meta['class'] says which."""
    weights = weights or [("S", 4), ("O", 4), ("A", 2), ("K", 3), ("T", 3), ("P", 1)]
    c = _choice_w(rng, weights)
    if c == "S":
        spec, meta = gen_shape(rng)
    elif c == "O":
        spec, meta = gen_occ(rng)
    elif c == "A":
        spec, meta = gen_affine(rng)
    elif c == "Os":
        spec, meta = gen_sigma_like(rng)
    elif c == "O2":
        # two flattenings of one tensor: the region where emission order (hash seed) has decided correctness
        spec, meta = gen_flatten2(rng)
    elif c == "A+":
        spec, meta = gen_affine(rng, allow_occ=True)
    elif c == "A2":
        # several index variables inside one access more often (order of first appearance within an access)
        spec, meta = gen_affine(rng, two_red_p=0.6, reverse_follow_p=0.3)
    elif c == "K":
        spec, meta = gen_cascade(rng)
    elif c == "T":
        spec, meta = gen_spacetime(rng)
    elif c == "TK":
        spec, meta = gen_cascade_spacetime(rng)
    elif c == "M":
        from gen import metrics as gm
        from sim import orch
        spec, meta = gm.gen_metrics(rng, orch.repo_path())
    elif c == "Mp":
        # metrics mode over a partitioned matmul (partitioning statements, hoisting and metrics hooks in one graph)
        from gen import metrics as gm
        spec, meta = gm.gen_synth_part(rng)
    else:
        spec, meta = gen_plain(rng)
        meta.update({"part": {}, "syms": {}, "extents": gen_extents(rng, spec), "nlevels": 0, "npart": 0})
    meta["class"] = c
    return spec, meta


def gen_cascade_conv(rng):
    """Cascade whose first Einsum uses index math (T[q] = I[a*q + b*s] * F[s]) and whose later
    Einsums partition, flatten or re-use the same index variables: state carried over from the
    index-math Einsum must not leak into its successors."""
    a = rng.choice([1, 1, 2])
    b = rng.choice([1, 1, 2])
    terms = [_iterm(a, "q"), _iterm(b, "s")]
    two_d = rng.random() < 0.35
    part, lo = {}, {}
    if two_d:
        # 2-D: the intermediate is built with an explicit shape and (often) in another order than declared
        t_ranks = _perm(rng, ["P", "Q"])
        decl = {"I": ["H", "W"], "F": ["R", "S"], "T": t_ranks}
        exprs = ["T%s = I[p + r, %s] * F[r, s]" % (_access(t_ranks), " + ".join(terms))]
        extents = {"Q": rng.randint(2, 4), "S": rng.randint(1, 3), "P": rng.randint(2, 4), "R": rng.randint(1, 2)}
        extents["W"] = a * (extents["Q"] - 1) + b * (extents["S"] - 1) + 1
        extents["H"] = extents["P"] + extents["R"] - 1
        if rng.random() < 0.7:
            lo["T"] = _perm(rng, ["P", "Q", "R", "S"])
        t_acc, t_own = "T" + _access(t_ranks), ["P", "Q"]
    else:
        decl = {"I": ["W"], "F": ["S"], "T": ["Q"]}
        exprs = ["T[q] = I[%s] * F[s]" % " + ".join(terms)]
        extents = {"Q": rng.randint(2, 5), "S": rng.randint(1, 3)}
        extents["W"] = a * (extents["Q"] - 1) + b * (extents["S"] - 1) + 1
        if rng.random() < 0.4:
            lo["T"] = _perm(rng, ["Q", "S"])
        t_acc, t_own = "T[q]", ["Q"]
    # second Einsum reads T over Q and one or two more ranks, sometimes re-using the names S / W as plain ranks
    extra = rng.sample(["M", "N", "S", "W"], rng.randint(1, 2))
    for r in extra:
        extents.setdefault(r, rng.randint(1, 5))
    a_ranks = _perm(rng, t_own + extra)
    decl["A"] = a_ranks
    out_ranks = _perm(rng, _subset(rng, t_own + extra, 0.6))
    decl["Z"] = out_ranks
    exprs.append("Z" + _access(out_ranks) + " = " + " * ".join(_perm(rng, [t_acc, "A" + _access(a_ranks)])))
    all_ranks = default_loop_order({"decl": decl, "exprs": exprs}, "Z", exprs[1])
    kind = _choice_w(rng, [("shape", 3), ("occ", 3), ("flatten", 3), ("none", 1)])
    groups = [[r] for r in all_ranks]
    if kind == "shape":
        r = rng.choice(all_ranks)
        dirs, _ = shape_stack(rng, r, extents[r], max_levels=2, symbolic_p=0.0)
        part["Z"] = {r: dirs}
        groups = [levels_of(x, len(dirs)) if x == r else [x] for x in all_ranks]
    elif kind == "occ":
        r = rng.choice(a_ranks)
        part["Z"] = {r: ["uniform_occupancy(A.%d)" % rng.choice([1, 2, 3])]}
        groups = [levels_of(x, 1) if x == r else [x] for x in all_ranks]
    elif kind == "flatten" and len(a_ranks) >= 2:
        fr = rng.sample(a_ranks, 2)
        name = "".join(fr)
        part["Z"] = {"(%s, %s)" % tuple(fr): ["flatten()"]}
        groups = [[x] for x in all_ranks if x not in fr] + [[name]]
    if kind != "none" or rng.random() < 0.5:
        lo["Z"] = loop_order_over(rng, groups, "ordered")
    if rng.random() < 0.4:
        # a third, plain Einsum
        decl["B"] = list(out_ranks)
        decl["Y"] = list(out_ranks)
        exprs.append("Y" + _access(out_ranks) + " = Z" + _access(out_ranks) + " + B" + _access(out_ranks))
    items = list(decl.items())
    rng.shuffle(items)
    spec = {"decl": dict(items), "exprs": exprs, "rank_order": None, "partitioning": part or None,
            "loop_order": lo or None, "spacetime": None, "arch": None, "bindings": None, "format": None}
    meta = {"einsums": [{"out": dense.output_name(e), "kind": "conv" if i == 0 else kind, "part": part.get(dense.output_name(e))}
                        for i, e in enumerate(exprs)],
            "syms": {}, "extents": extents, "n": len(exprs), "nlevels": 1 if part else 0, "npart": len(part),
            "derived_extents": {"W": ([("Q", a), ("S", b)], 0)} if False else {}}
    return spec, meta
