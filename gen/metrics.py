"""
Class M workload: specifications with architecture, bindings and formats.

 (a) 'accel': the five accelerator specifications of tests/integration with perturbed
     numbers (clock, bandwidth, instance counts, buffer sizes), styles, evict-on ranks,
     bindings dropped, symbolic partition sizes;
 (b) 'synth': synthetic 1-3 Einsum cascades over K, M, N with a two-configuration
     architecture (DRAM, cache, buffet, compute mul/add, the three intersector types,
     sequencer, merger), random bindings, spacetime and loop orders.
The compiler decides acceptance; rejections are discarded and counted.
"""
import copy
import os
import re

from gen import classes, spec as specmod
from model import dense

ACCEL = ["gamma", "extensor", "extensor-energy", "outerspace", "sigma"]
_cache = {}


def accel_spec(repo, name):
    key = (repo, name)
    if key not in _cache:
        p = os.path.join(repo, "tests", "integration", name + ".yaml")
        _cache[key] = specmod.from_yaml(open(p).read())
    return copy.deepcopy(_cache[key])


def _walk_levels(levels, fn):
    for lv in levels:
        fn(lv)
        _walk_levels(lv.get("subtree") or [], fn)


def perturb_accel(rng, spec):
    notes = []
    # architecture numbers
    # a component / level name that occurs in several configurations is perturbed the same way in
    # all of them (the compiler keeps one model per component name)
    decided = {}

    def once(key, p, choices):
        if key not in decided:
            decided[key] = rng.choice(choices) if rng.random() < p else None
        return decided[key]
    for cfg, levels in spec["arch"].items():
        def fix(lv):
            attrs = lv.get("attributes") or {}
            if "clock_frequency" in attrs and rng.random() < 0.7:
                attrs["clock_frequency"] = rng.choice([1000, 5000, 1000000, 3 * 10 ** 9])
            m = re.match(r"^(\w+)\[0\.\.(\d+)\]$", lv["name"])
            base = m.group(1) if m else lv["name"]
            if m:
                n = once(("inst", base), 0.6, [0, 1, 3, 7, 15, 100])
                if n is not None:
                    lv["name"] = "%s[0..%d]" % (base, n)
            elif lv.get("local") and lv["name"] != "System":
                n = once(("inst", base), 0.15, [1, 3])
                if n is not None:
                    lv["name"] = "%s[0..%d]" % (base, n)
            for comp in lv.get("local") or []:
                a = comp.get("attributes") or {}
                for attr, p_, ch in (("bandwidth", 0.7, [64, 512, 4096, 10 ** 9]), ("depth", 0.4, [16, 256, "inf", 65536]),
                                     ("width", 0.3, [8, 64, 512])):
                    if attr in a:
                        v = once((attr, comp["name"]), p_, ch)
                        if v is not None:
                            a[attr] = v
        _walk_levels(levels, fix)
    # bindings
    for einsum, blist in spec["bindings"].items():
        for comp in list(blist):
            if "component" not in comp:
                continue
            if rng.random() < 0.08:
                blist.remove(comp)
                notes.append("dropped " + comp["component"])
                continue
            # styles are toggled for all bindings of one tensor in one buffet together, and
            # evict-on is only perturbed for lazy bindings: an eager subtree whose coordinate and
            # payload bindings disagree on style or eviction is an inconsistent specification
            by_tensor = {}
            for b in comp.get("bindings") or []:
                if "evict-on" in b:
                    by_tensor.setdefault(b["tensor"], []).append(b)
            for t, bs in by_tensor.items():
                eager = any(b.get("style") == "eager" for b in bs)
                if eager and all(b.get("style") == "eager" for b in bs) and rng.random() < 0.15:
                    for b in bs:
                        b["style"] = "lazy"
                    eager = False
                    notes.append("eager->lazy")
                if rng.random() < 0.15 and not eager:
                    for b in bs:
                        b["style"] = "lazy"
                    notes.append("style")
                if not eager and rng.random() < 0.15:
                    lo = (spec.get("loop_order") or {}).get(einsum) or []
                    b = rng.choice(bs)
                    b["evict-on"] = rng.choice(["root"] + lo)
                    notes.append("evict-on")
    return notes


def gen_accel(rng, repo):
    name = rng.choice(ACCEL)
    spec = accel_spec(repo, name)
    notes = perturb_accel(rng, spec) if rng.random() < 0.7 else []
    syms = {}
    extents = {"K": rng.randint(2, 6), "M": rng.randint(2, 5), "N": rng.randint(2, 5)}
    if name.startswith("extensor"):
        for r in "KMN":
            s1 = rng.choice([2, 3, 4])
            s0 = rng.choice([1, 2]) if s1 % 2 == 0 else 1
            syms[r + "1"] = s1
            syms[r + "0"] = s0
    if name == "sigma":
        a, b = rng.choice([2, 3, 128]), rng.choice([1, 2, 3, 16384])
        p = spec["partitioning"]["Z"]
        p["K"] = ["uniform_shape(%d)" % a]
        p["MK0"] = ["uniform_occupancy(A.%d)" % b]
    meta = {"class": "M", "mkind": "accel", "name": name, "notes": notes, "syms": syms, "extents": extents,
            "mode": "metrics", "nlevels": 0, "npart": 0}
    return spec, meta


# --------------------------------------------------------------------- synthetic

FUNC = ["Mul0", "Mul1", "Add0", "TF", "SA", "LF", "Seq"]


def _arch(rng):
    ninst = rng.choice([1, 2, 4, 16])
    cfgs = {}
    info = {}
    # components of the same name have the same attributes and instance count in both
    # configurations (the compiler keeps one model per component name); only the clock differs
    bw = rng.choice([512, 1024, 4096])
    pe_name = "PE[0..%d]" % (ninst - 1) if ninst > 1 or rng.random() < 0.5 else "PE"
    n_pe = ninst if "[" in pe_name else 1
    depth = rng.choice([16, 128, "inf"])
    layout = {"lane": rng.random() < 0.5, "red_first": rng.random() < 0.5}
    l2bw = rng.choice([256, 2048])
    # the level holding the cache is sometimes multi-instance too (two source memories with different counts)
    chip_name = "Chip[0..%d]" % rng.choice([1, 3]) if rng.random() < 0.3 else "Chip"
    for cfg in ("cfgA", "cfgB"):
        freq = rng.choice([1000, 2048, 5000, 10 ** 9])
        local_pe = [
            {"name": "Buf", "class": "Buffet", "attributes": {"width": 64, "depth": depth}},
            {"name": "Mul0", "class": "compute", "attributes": {"type": "mul"}},
            {"name": "Mul1", "class": "compute", "attributes": {"type": "mul"}},
            {"name": "TF", "class": "Intersector", "attributes": {"type": "two-finger"}},
            {"name": "SA", "class": "Intersector", "attributes": {"type": "skip-ahead"}},
            {"name": "LF", "class": "Intersector", "attributes": {"type": "leader-follower"}},
        ]
        seq = {"name": "Seq", "class": "Sequencer", "attributes": {"num_ranks": 3}}
        local_red = [
            {"name": "Add0", "class": "compute", "attributes": {"type": "add"}},
            {"name": "Mrg", "class": "Merger", "attributes": {"inputs": 64, "comparator_radix": 64, "outputs": 1,
                                                              "order": "fifo", "reduce": False}},
            {"name": "Mrg2", "class": "Merger", "attributes": {"inputs": 16, "comparator_radix": 16, "outputs": 1,
                                                               "order": "fifo", "reduce": False}},
        ]
        pe = {"name": pe_name, "local": local_pe}
        inst = {"DRAM": 1, "L2": 1, **{c["name"]: n_pe for c in local_pe}, "Add0": 1, "Mrg": 1, "Mrg2": 1}
        if layout["lane"]:
            # a single-instance level nested under the (multi-instance) PE level
            pe["subtree"] = [{"name": "Lane", "local": [seq]}]
            inst["Seq"] = 1
        else:
            local_pe.append(seq)
            inst["Seq"] = n_pe
        # a single-instance sibling level listed before or after the multi-instance one
        subtree = [{"name": "Red", "local": local_red}, pe] if layout["red_first"] else [pe, {"name": "Red", "local": local_red}]
        # memory hierarchy as in the accelerator specifications: DRAM at the top, the cache one
        # level down, the buffet in the PE (one traffic path per tensor)
        cfgs[cfg] = [{"name": "System", "attributes": {"clock_frequency": freq},
                      "local": [{"name": "DRAM", "class": "DRAM", "attributes": {"bandwidth": bw}}],
                      "subtree": [{"name": chip_name,
                                   "local": [{"name": "L2", "class": "Cache", "attributes": {"width": 64, "depth": 1024, "bandwidth": l2bw}}],
                                   "subtree": subtree}]}]
        info[cfg] = {"freq": freq, "inst": inst, "bw": {"DRAM": bw}}
    # class names and intersector types are case-insensitive in the compiler: write some of them in another case
    recase = {}

    def fix(lv):
        for comp in lv.get("local") or []:
            key = comp["name"]
            if key not in recase:
                recase[key] = (rng.choice(["upper", "title", "lower"]) if rng.random() < 0.2 else None,
                               rng.choice(["upper", "title"]) if rng.random() < 0.3 else None)
            c, t = recase[key]
            if c:
                comp["class"] = getattr(comp["class"], c)()
            if t and comp["class"].lower() == "intersector":
                comp["attributes"]["type"] = getattr(comp["attributes"]["type"], t)()
    for levels in cfgs.values():
        _walk_levels(levels, fix)
    return cfgs, info


def _tensor_bindings(rng, tensor, order, loop, buffet, style_p=0.3):
    """DRAM-like or buffet-like bindings of all ranks of a tensor (gamma pattern)."""
    out = []
    above = loop[:loop.index(order[-1])] if order and order[-1] in loop else []
    if buffet and above and rng.random() < style_p:
        # eager: the bottom rank of the tensor loaded as one subtree (sigma pattern), evicted on a loop rank
        # above it (an eager binding evicted on "root" crashes Collector.trace_tree on the unchanged tree)
        r = order[-1]
        ev = rng.choice(above)
        return [{"tensor": tensor, "rank": r, "type": "payload", "format": "default", "evict-on": ev, "style": "eager"}]
    style = None
    for i, r in enumerate(order):
        types = ["payload"] if i == 0 else ["coord", "payload"]
        for ty in types:
            b = {"tensor": tensor, "rank": r, "type": ty, "format": "default"}
            if buffet:
                b["evict-on"] = "root" if i == 0 else order[i - 1]
                if style:
                    b["style"] = style
            out.append(b)
    return out


def gen_synth(rng, lf_any_leader=False):
    n = classes._choice_w(rng, [(1, 3), (2, 4), (3, 4)])
    decl = {"A": ["K", "M"], "B": ["K", "N"], "C": ["M", "N"], "D": ["N"], "T": ["K", "M", "N"],
            "Z": ["M", "N"], "Y": ["M"]}
    decl["E"] = ["M", "N"]
    decl["P"] = ["M"]
    decl["R"] = ["N"]
    decl["G"] = ["K"]
    # operand variety: extra operands on a subset of the ranks, in any position of the product, so that the
    # tensors co-iterated at one rank have different lower ranks (fiber vs value payloads) and the first
    # holder of a rank differs from rank to rank
    f1 = ["A[k, m]", "B[k, n]"] + (["G[k]"] if rng.random() < 0.3 else [])
    if rng.random() < 0.4:
        rng.shuffle(f1)
    f2 = ["T[k, m, n]"] + rng.sample(["C[m, n]", "E[m, n]", "P[m]", "R[n]"], classes._choice_w(rng, [(0, 2), (1, 4), (2, 4)]))
    if rng.random() < 0.75:
        rng.shuffle(f2)
    if rng.random() < 0.25:
        # a one-rank operand first, then the intermediate, then another holder of the other rank: the first
        # holders of M and N differ
        first = rng.choice(["P[m]", "R[n]"])
        f2 = [first, "T[k, m, n]", rng.choice(["C[m, n]", "E[m, n]", "R[n]" if first == "P[m]" else "P[m]"])]
    f3 = ["Z[m, n]", "D[n]"] + (["P[m]"] if rng.random() < 0.3 else [])
    if rng.random() < 0.4:
        rng.shuffle(f3)
    if rng.random() < 0.15:
        f3 = ["D[n]", "Z[m, n]", "P[m]"]
    all_exprs = ["T[k, m, n] = " + " * ".join(f1), "Z[m, n] = " + " * ".join(f2), "Y[m] = " + " * ".join(f3)]
    exprs = all_exprs[:n]
    used = set()
    for e in exprs:
        used.add(dense.output_name(e))
        used.update(dense.expr_tensors(e))
    decl = {t: rs for t, rs in decl.items() if t in used}
    outs = [dense.output_name(e) for e in exprs]
    ranks_of = {"T": ["K", "M", "N"], "Z": ["K", "M", "N"], "Y": ["M", "N"]}
    lo, st, ro = {}, {}, {}
    fusable = rng.random() < 0.3     # bias towards long fusion blocks: same config, empty temporal prefix
    for o in outs:
        perm = classes._perm(rng, ranks_of[o])
        lo[o] = perm
        if fusable:
            space = [perm[0]]
        elif rng.random() < 0.6 and len(perm) > 1:
            i = rng.randint(1, len(perm) - 1) if rng.random() < 0.8 else 0
            space = [perm[i]]
        else:
            space = []
        time = [r for r in perm if r not in space]
        if rng.random() < 0.2:
            rng.shuffle(time)
        st[o] = {"space": space, "time": time}
        if rng.random() < 0.2:
            st[o]["opt"] = "slip"
    # rank orders concordant with the loop order of the Einsum that first touches the tensor
    # (the accelerator specifications all do this; bindings and formats then name ranks in
    # the order the tensor is actually stored)
    for e, o in zip(exprs, outs):
        for t in [o] + dense.expr_tensors(e):
            if t not in ro:
                ro[t] = [r for r in lo[o] if r in decl[t]]
    spec = {"decl": decl, "exprs": exprs, "rank_order": ro, "partitioning": None, "loop_order": lo,
            "spacetime": st, "arch": None, "bindings": None, "format": None}
    arch, ainfo = _arch(rng)
    spec["arch"] = arch
    # format: every tensor gets a default format in its declared order
    fmt = {}
    for t in decl:
        rs = ro[t]
        f = {"rank-order": list(rs)}
        for i, r in enumerate(rs):
            kind = rng.choice(["U", "C"])
            d = {"format": kind}
            if kind == "C" or rng.random() < 0.5:
                d["cbits"] = rng.choice([0, 32])
            d["pbits"] = rng.choice([32, 64])
            f[r] = d
        fmt[t] = {"default": f}
    spec["format"] = fmt
    bindings = {}
    emeta = {}
    pool_left = list(FUNC)
    one_cfg = rng.choice(["cfgA", "cfgB"])
    for e, o in zip(exprs, outs):
        cfg = one_cfg if fusable else rng.choice(["cfgA", "cfgA", "cfgB"])
        bl = [{"config": cfg, "prefix": "tmp/" + o}]
        func = set()
        ins = dense.expr_tensors(e)
        hold = classes.holders_of(spec, e)
        co = [r for r in lo[o] if len(hold.get(r, [])) >= 2]
        isect_ranks = set()
        # pairs of co-iterated ranks whose first holders (= legal leaders) differ: one leader-follower
        # intersector bound to both has a different leader per rank
        lf_pairs = [(r1, r2) for r1 in co for r2 in co if r1 != r2 and hold[r1][0] != hold[r2][0]]
        want_isect = [rng.choice(["LF", "LF", "TF", "SA"])] if rng.random() < 0.5 else []
        if lf_pairs and rng.random() < 0.5:
            want_isect = ["LF"]
        if want_isect and rng.random() < 0.3:
            # a second intersector of another type on other ranks of the same Einsum
            want_isect.append(rng.choice([c for c in ("LF", "TF", "SA") if c not in want_isect]))
        for c in FUNC:
            if c in ("TF", "SA", "LF"):
                if c not in want_isect:
                    continue
            elif rng.random() > 0.35:
                continue
            if fusable:
                if c not in pool_left:
                    continue
                pool_left.remove(c)
            if c.startswith("Mul"):
                if " * " not in e:
                    continue
                bl.append({"component": c, "bindings": [{"op": "mul"}]})
            elif c == "Add0":
                bl.append({"component": c, "bindings": [{"op": "add"}]})
            elif c in ("TF", "SA", "LF"):
                free = [r for r in co if r not in isect_ranks]
                if c != "LF":
                    # two-finger / skip-ahead tracing of more than two tensors is NotImplemented in the compiler
                    free = [r for r in free if len(hold[r]) == 2]
                if not free:
                    continue
                rs = rng.sample(free, 2) if len(free) >= 2 and rng.random() < 0.5 else [rng.choice(free)]
                if c == "LF" and lf_pairs and not isect_ranks and rng.random() < 0.7:
                    rs = list(rng.choice(lf_pairs))
                isect_ranks.update(rs)
                bs = []
                for r in rs:
                    b = {"rank": r}
                    if c == "LF":
                        # leader = first operand of the term holding the rank (known finding C11-LF-ORDER) ...
                        b["leader"] = hold[r][0]
                        below = {len([x for x in lo[o][lo[o].index(r) + 1:] if x in decl[t_]]) for t_ in hold[r]}
                        if lf_any_leader and len(below) == 1 and 0 not in below and rng.random() < 0.5:
                            # ... except where only the traces are judged (C12): any holder may lead, provided
                            # the operands have the same depth below the rank (the mis-destructured payloads of
                            # C11-LF-ORDER then still iterate)
                            b["leader"] = rng.choice(hold[r])
                    bs.append(b)
                bl.append({"component": c, "bindings": bs})
            else:
                k = rng.randint(1, len(lo[o]))
                bl.append({"component": "Seq", "bindings": [{"rank": r} for r in lo[o][:k]]})
            func.add(c)
        # memory traffic: bind one or two tensors to DRAM and the buffet (or the cache)
        for t in [x for x in ins + [o] if rng.random() < (0.7 if fusable else 0.4)]:
            order = ro[t]
            if not order or [r for r in lo[o] if r in order] != order:
                continue     # stored discordantly with this Einsum's loop order (needs a merger)
            dram = _tensor_bindings(rng, t, order, lo[o], False)
            buf = _tensor_bindings(rng, t, order, lo[o], True)
            _append_bindings(bl, "DRAM", dram)
            if rng.random() < 0.25:
                # two on-chip levels holding the same tensor: a (lazy) cache above a lazy or eager buffet
                _append_bindings(bl, "L2", _tensor_bindings(rng, t, order, lo[o], True, style_p=0.0))
                _append_bindings(bl, "Buf", buf)
            else:
                _append_bindings(bl, rng.choice(["Buf", "Buf", "L2"]), buf)
        # hardware merger: an intermediate stored in one order and consumed in another
        merged = False
        for t in ins:
            if t in outs and rng.random() < 0.6:
                need = [r for r in lo[o] if r in ro[t]]
                if need != ro[t]:
                    _append_bindings(bl, "Mrg", [{"tensor": t, "init-ranks": list(ro[t]), "final-ranks": need}])
                    merged = True
        if merged and rng.random() < 0.4:
            # a second merger bound to the same Einsum, listed before or after the first
            t2 = [t for t in ins if t not in outs and len(ro[t]) >= 2 and [r for r in lo[o] if r in ro[t]] == ro[t]]
            if t2:
                t = rng.choice(t2)
                ent = {"component": "Mrg2", "bindings": [{"tensor": t, "init-ranks": list(reversed(ro[t])), "final-ranks": list(ro[t])}]}
                pos = [i for i, e_ in enumerate(bl) if e_.get("component") == "Mrg"][0]
                bl.insert(pos + rng.choice([0, 1]), ent)
        if rng.random() < 0.2:
            cfg_rec = bl.pop(0)
            bl.insert(rng.randrange(len(bl) + 1), cfg_rec)
        bindings[o] = bl
        sp = st[o]["space"]
        prefix = lo[o][:lo[o].index(sp[0])] if sp else list(lo[o])
        emeta[o] = {"config": cfg, "prefix": prefix, "func": sorted(func)}
    if rng.random() < 0.2:
        items = list(bindings.items())
        rng.shuffle(items)
        bindings = dict(items)
    spec["bindings"] = bindings
    extents = {"K": rng.randint(2, 5), "M": rng.randint(2, 4), "N": rng.randint(2, 4)}
    meta = {"class": "M", "mkind": "synth", "name": "synth", "syms": {}, "extents": extents, "mode": "metrics",
            "einsums": emeta, "arch_info": ainfo, "outs": outs, "nlevels": 0, "npart": 0, "fusable": fusable}
    return spec, meta


def gen_synth_part(rng, lf_any_leader=False):
    """Metrics mode over a dynamically / statically partitioned matmul: functional components only
    (compute, sequencer, one intersector), so that hoisting of partitioning statements and the
    metrics hooks meet in one flow graph."""
    decl = {"A": ["K", "M"], "B": ["K", "N"], "Z": ["M", "N"]}
    expr = "Z[m, n] = A[k, m] * B[k, n]"
    spec = {"decl": decl, "exprs": [expr], "rank_order": None, "partitioning": None, "loop_order": None,
            "spacetime": None, "arch": None, "bindings": None, "format": None}
    part = {}
    syms = {}
    hold = {"K": ["A", "B"], "M": ["A"], "N": ["B"]}
    extents = {"K": rng.randint(3, 7), "M": rng.randint(2, 5), "N": rng.randint(2, 5)}
    for r in rng.sample(["K", "M", "N"], rng.randint(1, 2)):
        if rng.random() < 0.7:
            dirs, _ = classes.occ_stack(rng, r, hold[r], extents[r])
            dirs = [d for d in dirs if d.startswith("uniform_shape") or d[d.rindex(".") + 1:-1].isdigit()]
            if not dirs:
                dirs = ["uniform_occupancy(%s.2)" % hold[r][0]]
        else:
            dirs, _ = classes.shape_stack(rng, r, extents[r], max_levels=2, symbolic_p=0.0)
        part[r] = dirs
    lead_merge = rng.random() < 0.2
    if lead_merge:
        # one occupancy level led by the tensor that is merged afterwards, split in front of the loop nest
        t_lead = rng.choice(["A", "B"])
        r_lead = rng.choice(decl[t_lead])
        part = {r_lead: ["uniform_occupancy(%s.%d)" % (t_lead, rng.choice([1, 2, 3]))]}
    spec["partitioning"] = {"Z": part}
    groups = [classes.levels_of(r, len(part[r])) if r in part else [r] for r in ["M", "N", "K"]]
    lo = classes.loop_order_over(rng, groups, "ordered")
    if lead_merge:
        lo.remove(r_lead + "1")
        lo.insert(0, r_lead + "1")
    spec["loop_order"] = {"Z": lo}
    k = rng.randint(0, 1)
    space = [lo[rng.randrange(1, len(lo))]] if k and len(lo) > 1 else []
    spec["spacetime"] = {"Z": {"space": space, "time": [r for r in lo if r not in space]}}
    arch, ainfo = _arch(rng)
    spec["arch"] = arch
    spec["format"] = {t: {"default": {"rank-order": list(rs), **{r: {"format": "C", "cbits": 32, "pbits": 32} for r in rs}}}
                      for t, rs in decl.items()}
    bl = [{"config": "cfgA", "prefix": "tmp/Z"}]
    if rng.random() < 0.7:
        bl.append({"component": "Mul0", "bindings": [{"op": "mul"}]})
    if rng.random() < 0.5:
        bl.append({"component": "Add0", "bindings": [{"op": "add"}]})
    if rng.random() < 0.5:
        bl.append({"component": "Seq", "bindings": [{"rank": r} for r in lo[:rng.randint(1, min(3, len(lo)))]]})
    if rng.random() < 0.5:
        klev = [r for r in lo if r.startswith("K")]
        c = rng.choice(["TF", "SA", "LF"])
        b = {"rank": klev[-1]}
        if c == "LF":
            b["leader"] = "A"
            pos = lo.index(klev[-1])
            below = {t_: len([x for x in lo[pos + 1:] if x.rstrip("0123456789") in decl[t_]]) for t_ in ("A", "B")}
            if lf_any_leader and below["A"] == below["B"] == 1 and "M" not in part and "N" not in part:
                # (same depth below the rank: see gen_synth)
                b["leader"] = rng.choice(["A", "B"])
        bl.append({"component": c, "bindings": [b]})
    if rng.random() < 0.5 or lead_merge:
        # hardware merger bound to a tensor that is partitioned before the merge: init-ranks name partition levels
        # ... statically: a merger on a tensor that is split inside the loop nest (uniform_occupancy) is known
        # finding MERGER-DYNPART (the init-ranks never exist together; witness only)
        static = [t for t in ("A", "B") if _merge_ok(t, decl, part, lo)]
        t = rng.choice(static) if static else "A"
        if lead_merge and t_lead in static:
            t = t_lead
        init = []
        for r in decl[t]:
            init.extend(classes.levels_of(r, len(part[r])) if r in part else [r])
        final = [r for r in lo if r in init]
        if init != final and static:
            bl.append({"component": "Mrg", "bindings": [{"tensor": t, "init-ranks": init, "final-ranks": final}]})
    spec["bindings"] = {"Z": bl}
    meta = {"class": "M", "mkind": "synth_part", "name": "synth_part", "syms": syms, "extents": extents, "mode": "metrics",
            "nlevels": sum(len(d) for d in part.values()), "npart": len(part)}
    return spec, meta


MERGER_ANY = False    # probes only: lift the MERGER-DYNPART restriction


def _merge_ok(t, decl, part, lo):
    """May a merger be bound to tensor t after partitioning?  Only if its init-ranks exist together on one
    tensor object: every partitioned rank of t is split statically (shape directives), or t itself leads a
    single one-level occupancy split that happens in front of the loop nest (its upper level is the first of
    t's ranks in loop order).  Everything else is known finding MERGER-DYNPART."""
    if MERGER_ANY:
        return True
    dyn = [r for r in decl[t] if any(d.startswith("uniform_occupancy") for d in part.get(r, []))]
    if not dyn:
        return True
    if len(dyn) > 1:
        return False
    r = dyn[0]
    ds = part[r]
    if len(ds) != 1 or not ds[0].startswith("uniform_occupancy(%s." % t):
        return False
    mine = [x for x in lo if x.rstrip("0123456789") in decl[t]]
    return bool(mine) and mine[0] == r + "1"


def gen_metrics_over(rng):
    """Metrics mode (functional components only: compute, sequencer, one intersector) over Einsums of the plain
    classes that the accelerator-style generators never produce: the generalised SIGMA mapping (flattening with
    coordinate look-ups inside the flattened loop) and unpartitioned convolutions (co-iteration of a projected
    tensor)."""
    if rng.random() < 0.5:
        spec, bmeta = classes.gen_sigma_like(rng)
        out = "Z"
        lo = list(spec["loop_order"][out])
        expr = spec["exprs"][0]
        first = dense.expr_tensors(expr)[0]
        isect_rank, leader = "K1", first
        extents = bmeta["extents"]
        syms = {}
    else:
        a, b = rng.choice([1, 1, 2]), rng.choice([1, 1, 2])
        chan = rng.random() < 0.4
        f_ranks = (["M"] if chan else []) + ["S"]
        o_ranks = (["M"] if chan else []) + ["Q"]
        # F first: a leader-follower intersector on S is led by F (leader = first operand, known finding
        # C11-LF-ORDER) and followed by the projected tensor
        facs = ["F" + classes._access(f_ranks), "I[%s]" % " + ".join([classes._iterm(a, "q"), classes._iterm(b, "s")])]
        decl = {"I": ["W"], "F": f_ranks, "O": o_ranks}
        spec = {"decl": decl, "exprs": ["O" + classes._access(o_ranks) + " = " + " * ".join(facs)], "rank_order": None,
                "partitioning": None, "loop_order": None, "spacetime": None, "arch": None, "bindings": None, "format": None}
        out = "O"
        lo = classes._perm(rng, o_ranks + ["S"])
        spec["loop_order"] = {out: lo}
        extents = {"Q": rng.randint(2, 5), "S": rng.randint(1, 3), "M": rng.randint(1, 3)}
        extents["W"] = a * (extents["Q"] - 1) + b * (extents["S"] - 1) + 1
        extents = {r: v for r, v in extents.items() if any(r in rs for rs in decl.values())}
        isect_rank = "S"
        leader = "F"
        syms = {}
    k = rng.randint(0, min(2, len(lo) - 1))
    space = [lo[rng.randrange(len(lo))]] if k else []
    spec["spacetime"] = {out: {"space": space, "time": [r for r in lo if r not in space]}}
    arch, ainfo = _arch(rng)
    spec["arch"] = arch
    spec["format"] = {t: {"default": {"rank-order": list(rs), **{r: {"format": "C", "cbits": 32, "pbits": 32} for r in rs}}}
                      for t, rs in spec["decl"].items()}
    bl = [{"config": "cfgA", "prefix": "tmp/" + out}]
    if rng.random() < 0.7:
        bl.append({"component": "Mul0", "bindings": [{"op": "mul"}]})
    if rng.random() < 0.4:
        bl.append({"component": "Add0", "bindings": [{"op": "add"}]})
    if rng.random() < 0.5:
        bl.append({"component": "Seq", "bindings": [{"rank": r} for r in lo[:rng.randint(1, min(3, len(lo)))]]})
    if rng.random() < 0.7 and isect_rank in lo:
        c = rng.choice(["LF", "LF", "TF", "SA"])
        b_ = {"rank": isect_rank}
        if c == "LF":
            b_["leader"] = leader
        bl.append({"component": c, "bindings": [b_]})
    spec["bindings"] = {out: bl}
    meta = {"class": "M", "mkind": "over", "name": "over", "syms": syms, "extents": extents, "mode": "metrics",
            "nlevels": 0, "npart": 0}
    return spec, meta


def _append_bindings(bl, comp, items):
    if comp == "L2":
        items = [{k: v for k, v in b.items() if k not in ("evict-on", "style")} for b in items]
    for entry in bl:
        if entry.get("component") == comp:
            entry["bindings"].extend(items)
            return
    bl.append({"component": comp, "bindings": items})


def gen_metrics(rng, repo="/repo", accel_p=0.32, part_p=0.15, over_p=0.1, lf_any_leader=False):
    x = rng.random()
    if x < accel_p:
        return gen_accel(rng, repo)
    if x < accel_p + part_p:
        return gen_synth_part(rng, lf_any_leader)
    if x < accel_p + part_p + over_p:
        return gen_metrics_over(rng)
    return gen_synth(rng, lf_any_leader)


def gen_fusion_history(rng):
    """A history of 2-6 Einsums for the fusion state machine: elementwise chain over K, M, N;
    per step a configuration, a loop order, a space/time split (so that temporal prefixes
    collide and differ) and a set of functional components from a shared pool."""
    n = rng.randint(2, 6)
    decl = {"A": ["K", "M"], "B": ["K", "N"]}
    exprs = []
    outs = []
    for i in range(n):
        o = "X%d" % i
        decl[o] = ["K", "M", "N"]
        if i == 0:
            exprs.append("%s[k, m, n] = A[k, m] * B[k, n]" % o)
        else:
            c = "C%d" % i
            decl[c] = ["K", "M", "N"]
            exprs.append("%s[k, m, n] = X%d[k, m, n] * %s[k, m, n]" % (o, i - 1, c))
        outs.append(o)
    lo, st, bindings, part = {}, {}, {}, {}
    base_lo = classes._perm(rng, ["K", "M", "N"])
    base_space = rng.randint(0, 2)
    for i, o in enumerate(outs):
        # mostly repeat the previous choice so that blocks really form
        perm = base_lo if rng.random() < 0.65 else classes._perm(rng, ["K", "M", "N"])
        base_lo = perm
        k = base_space if rng.random() < 0.65 else rng.randint(0, 2)
        base_space = k
        idx = sorted(rng.sample(range(3), k))
        space = [perm[j] for j in idx]
        if rng.random() < 0.2:
            rng.shuffle(space)
        time = [r for r in perm if r not in space]
        if rng.random() < 0.3:
            # the time list only defines the time-stamp tuple of the display: any order is legal
            rng.shuffle(time)
        if i and sorted(st[outs[i - 1]]["time"]) == sorted(time) and lo[outs[i - 1]] != list(perm) and rng.random() < 0.6:
            # ... e.g. spelled exactly as the previous Einsum's although the loop order differs
            time = list(st[outs[i - 1]]["time"])
        lo[o] = list(perm)
        st[o] = {"space": space, "time": time}
        flat = None
        if i and rng.random() < 0.2 and perm[2] in space + time:
            # this Einsum flattens its two outer loop ranks: its temporal prefix ["KM"] is a different list than
            # a neighbour's ["K", "M"]
            flat = perm[0] + perm[1]
            part[o] = {"(%s, %s)" % (perm[0], perm[1]): ["flatten()"]}
            lo[o] = [flat, perm[2]]
            sp = [flat] if (perm[0] in space or perm[1] in space) else []
            sp += [perm[2]] if perm[2] in space else []
            st[o] = {"space": sp, "time": [r for r in lo[o] if r not in sp]}
        cfg = "cfgA" if rng.random() < 0.75 else "cfgB"
        bl = [{"config": cfg, "prefix": "tmp/" + o}]
        isect = False
        for c in FUNC:
            if rng.random() > 0.3:
                continue
            if c.startswith("Mul"):
                bl.append({"component": c, "bindings": [{"op": "mul"}]})
            elif c == "Add0":
                bl.append({"component": c, "bindings": [{"op": "add"}]})
            elif c in ("TF", "SA", "LF"):
                if isect:
                    continue
                isect = True
                b = {"rank": rng.choice(lo[o])}
                if c == "LF":
                    b["leader"] = "A" if i == 0 else "X%d" % (i - 1)
                    if i == 0:
                        b["rank"] = "K"
                bl.append({"component": c, "bindings": [b]})
            else:
                bl.append({"component": "Seq", "bindings": [{"rank": r} for r in lo[o][:rng.randint(1, len(lo[o]))]]})
        if rng.random() < 0.15:
            # a component that is named but bound to nothing must not count as "bound"
            if not any(x.get("component") == "Mul1" for x in bl):
                bl.insert(rng.randrange(1, len(bl) + 1), {"component": "Mul1", "bindings": []})
        if rng.random() < 0.3:
            # the binding list is an unordered sequence of records: the config record need not come first
            cfg_rec = bl.pop(0)
            bl.insert(rng.randrange(len(bl) + 1), cfg_rec)
        bindings[o] = bl
    if rng.random() < 0.3:
        # `bindings:` is a mapping keyed by Einsum name: its keys need not be in program order
        items = list(bindings.items())
        rng.shuffle(items)
        bindings = dict(items)
    arch, ainfo = _arch(rng)
    spec = {"decl": decl, "exprs": exprs, "rank_order": None, "partitioning": part or None, "loop_order": lo,
            "spacetime": st, "arch": arch, "bindings": bindings, "format": None}
    meta = {"class": "F", "mkind": "fusion", "n": n, "syms": {}, "extents": {"K": 2, "M": 2, "N": 2}, "mode": "metrics"}
    return spec, meta
