"""
Specification IR used by the generators, the oracles and the replay files.

A spec is a JSON-able dict:
  decl         {tensor: [ranks]}                (declaration order = dict order)
  exprs        [str]
  rank_order   {tensor: [ranks]} | None
  partitioning {einsum_output: {rank_key: [directive str]}} | None   (rank_key "K" or "(M, K)")
  loop_order   {einsum_output: [ranks]} | None
  spacetime    {einsum_output: {"space": [str], "time": [str], "opt": str?}} | None
  arch / bindings / format : raw YAML-able python structures or None (metrics mode)
  omit         list of mapping section names to print not at all (default: print only non-None)
"""
import copy
import io

from ruamel.yaml import YAML


def _flow_list(xs):
    return "[" + ", ".join(str(x) for x in xs) + "]"


def to_yaml(spec):
    out = ["einsum:", "  declaration:"]
    for t, rs in spec["decl"].items():
        out.append("    %s: %s" % (t, _flow_list(rs)))
    out.append("  expressions:")
    for e in spec["exprs"]:
        out.append("    - %s" % e)
    m = []
    if spec.get("rank_order") is not None:
        m.append("  rank-order:")
        for t, rs in spec["rank_order"].items():
            m.append("    %s: %s" % (t, _flow_list(rs)))
    if spec.get("partitioning") is not None:
        m.append("  partitioning:")
        for e, d in spec["partitioning"].items():
            if d:
                m.append("    %s:" % e)
                for key, dirs in d.items():
                    m.append("      %s: %s" % (key, _flow_list(dirs)))
            else:
                m.append("    %s: {}" % e)
    if spec.get("loop_order") is not None:
        m.append("  loop-order:")
        for e, rs in spec["loop_order"].items():
            m.append("    %s: %s" % (e, _flow_list(rs)))
    if spec.get("spacetime") is not None:
        m.append("  spacetime:")
        for e, st in spec["spacetime"].items():
            m.append("    %s:" % e)
            m.append("      space: %s" % _flow_list(st["space"]))
            m.append("      time: %s" % _flow_list(st["time"]))
            if st.get("opt"):
                m.append("      opt: %s" % st["opt"])
    if m:
        out.append("mapping:")
        out.extend(m)
    text = "\n".join(out) + "\n"
    extra = {}
    for k in ("arch", "bindings", "format"):
        if spec.get(k) is not None:
            extra[{"arch": "architecture"}.get(k, k)] = spec[k]
    if extra:
        y = YAML()
        y.default_flow_style = False
        buf = io.StringIO()
        y.dump(_plain(extra), buf)
        text += buf.getvalue()
    return text


def _plain(x):
    if isinstance(x, dict):
        return {k: _plain(v) for k, v in x.items()}
    if isinstance(x, (list, tuple)):
        return [_plain(v) for v in x]
    return x


def from_yaml(text):
    y = YAML(typ="safe")
    d = y.load(text)
    e = d["einsum"]
    m = d.get("mapping") or {}
    spec = {
        "decl": {t: list(rs) for t, rs in e["declaration"].items()},
        "exprs": [str(x) for x in e["expressions"]],
        "rank_order": None, "partitioning": None, "loop_order": None, "spacetime": None,
        "arch": None, "bindings": None, "format": None,
    }
    if m.get("rank-order") is not None:
        spec["rank_order"] = {t: list(rs) for t, rs in m["rank-order"].items()}
    if m.get("partitioning") is not None:
        spec["partitioning"] = {e_: {str(k): [str(x) for x in v] for k, v in (dd or {}).items()}
                                for e_, dd in m["partitioning"].items()}
    if m.get("loop-order") is not None:
        spec["loop_order"] = {t: [str(r) for r in rs] for t, rs in m["loop-order"].items()}
    if m.get("spacetime") is not None:
        st = {}
        for t, s in m["spacetime"].items():
            st[t] = {"space": [str(x) for x in s["space"]], "time": [str(x) for x in s["time"]]}
            if "opt" in s:
                st[t]["opt"] = s["opt"]
        spec["spacetime"] = st
    if d.get("architecture") is not None:
        spec["arch"] = d["architecture"]
    if d.get("bindings") is not None:
        spec["bindings"] = d["bindings"]
    if d.get("format") is not None:
        spec["format"] = d["format"]
    return spec


def clone(spec):
    return copy.deepcopy(spec)


def strip_hw(spec):
    s = clone(spec)
    s["arch"] = s["bindings"] = s["format"] = None
    return s
