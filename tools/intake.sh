#!/bin/bash
# usage: intake.sh <PROP> <first new index>   -- confirms /tmp/mut/<PROP>/out/m1..m3 and keeps them as seeded/<PROP>-m<idx..>
P=$1; I=${2:-4}
for n in 1 2 3; do
  src=/tmp/mut/$P/out/m$n
  [ -f $src/patch.diff ] || { echo "$P m$n: no patch"; continue; }
  /verif/tools/confirm_mut.sh $src $P-m$((I+n-1)) $P
done
