#!/usr/bin/env python3
"""usage: seeded_table.py <run_seeded log>...   -> updates seeded/<id>/meta.json (caught_by / missed_by, what_ran)
and prints the markdown table for DESIGN section 10."""
import json
import os
import re
import sys

res = {}
for path in sys.argv[1:]:
    cur = None
    for line in open(path):
        m = re.match(r"^=== (\S+) vs (\S+)", line)
        if m:
            cur = (m.group(1), m.group(2))
            res.setdefault(cur, {"violations": None, "classes": [], "rc": None})
            res[cur]["classes"] = []
            continue
        if cur is None:
            continue
        m = re.match(r"^VIOLATION property=\S+ replay=\S*/(C\d\d)-(.*?)-[^-]*\.json", line)
        if m:
            res[cur]["classes"].append(m.group(2))
        m = re.match(r"^DONE .* violations=(\d+)", line)
        if m:
            res[cur]["violations"] = int(m.group(1))
        m = re.match(r"^rc=(\d+)", line)
        if m:
            res[cur]["rc"] = int(m.group(1))
        if line.startswith("PATCH DOES NOT APPLY"):
            res[cur]["rc"] = "patch does not apply"
rows = []
for (sid, prop), r in sorted(res.items()):
    mp = "/verif/seeded/%s/meta.json" % sid
    if not os.path.exists(mp):
        continue
    meta = json.load(open(mp))
    caught = set(meta.get("caught_by") or [])
    missed = set(meta.get("missed_by") or [])
    if r["rc"] == 1:
        caught.add(prop)
        missed.discard(prop)
        meta.setdefault("violation_classes", {})[prop] = sorted(set(r["classes"]))
    elif r["rc"] == 0:
        if prop not in caught:
            missed.add(prop)
    meta["caught_by"] = sorted(caught)
    meta["missed_by"] = sorted(missed)
    meta["what_ran"] = "tools/trymut.sh: scratch worktree of /repo HEAD + patch, TEAAL_REPO=<worktree> /verif/dst check <ID> --tier quick (default VERIF_SEED)"
    json.dump(meta, open(mp, "w"), indent=1)
for sid in sorted(os.listdir("/verif/seeded")):
    meta = json.load(open("/verif/seeded/%s/meta.json" % sid))
    notes = ""
    np_ = "/verif/seeded/%s/notes.md" % sid
    cls = "; ".join("%s: %s" % (k, ", ".join(v[:2])) for k, v in (meta.get("violation_classes") or {}).items())
    rows.append("| %s | %s | %s | %s | %s |" % (sid, meta["breaks_property"], ", ".join(meta.get("caught_by") or []) or "-",
                                                ", ".join(meta.get("missed_by") or []) or "-", cls))
print("| seeded variant | breaks | caught by (quick tier) | not caught by | violation classes reported |")
print("|---|---|---|---|---|")
print("\n".join(rows))
