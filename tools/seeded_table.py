#!/usr/bin/env python3
"""usage: seeded_table.py <run_seeded log>...
Reads run_seeded.sh logs (later logs override earlier ones for the same (variant, check) pair), rewrites
caught_by / missed_by / violation_classes in seeded/<id>/meta.json from the LATEST result of every pair, and prints the
markdown table of DESIGN section 10."""
import json
import os
import re
import sys

VERIF = os.path.dirname(os.path.dirname(os.path.abspath(__file__)))
res = {}
for path in sys.argv[1:]:
    cur = None
    for line in open(path, errors="replace"):
        m = re.match(r"^=== (\S+) vs (\S+)", line)
        if m:
            cur = (m.group(1), m.group(2))
            res[cur] = {"violations": None, "classes": [], "rc": None}
            continue
        if cur is None:
            continue
        m = re.match(r"^VIOLATION property=\S+ replay=\S*/(C\d\d)-(.*?)-[^-]*\.json", line)
        if m:
            res[cur]["classes"].append(m.group(2))
        m = re.match(r"^DONE .* violations=(\d+)", line)
        if m:
            res[cur]["violations"] = int(m.group(1))
        m = re.match(r"^rc=(\d+)", line)
        if m:
            res[cur]["rc"] = int(m.group(1))
        if line.startswith("PATCH DOES NOT APPLY"):
            res[cur]["rc"] = "patch does not apply"

by_sid = {}
for (sid, prop), r in res.items():
    caught = r["rc"] == 1 or (r["violations"] or 0) > 0 or bool(r["classes"])
    done = r["violations"] is not None or r["rc"] is not None or r["classes"]
    if not done:
        continue
    by_sid.setdefault(sid, {})[prop] = (caught, sorted(set(r["classes"])), r)

for sid, props in sorted(by_sid.items()):
    mp = os.path.join(VERIF, "seeded", sid, "meta.json")
    if not os.path.exists(mp):
        continue
    meta = json.load(open(mp))
    caught = set(meta.get("caught_by") or [])
    missed = set(meta.get("missed_by") or [])
    vc = meta.get("violation_classes") or {}
    for prop, (c, classes, r) in props.items():
        if c:
            caught.add(prop)
            missed.discard(prop)
            if classes:
                vc[prop] = classes
        else:
            caught.discard(prop)
            vc.pop(prop, None)
            missed.add(prop)
    meta["caught_by"] = sorted(caught)
    meta["missed_by"] = sorted(missed)
    meta["violation_classes"] = vc
    meta["what_ran"] = ("tools/run_seeded.sh -> tools/trymut.sh: scratch worktree of /repo HEAD + patch, TEAAL_REPO=<worktree> "
                        "dst check <ID> --tier quick (default VERIF_SEED); latest result per (variant, check) pair")
    json.dump(meta, open(mp, "w"), indent=1)

rows = []
n = ncaught = nown = 0
for sid in sorted(os.listdir(os.path.join(VERIF, "seeded"))):
    meta = json.load(open(os.path.join(VERIF, "seeded", sid, "meta.json")))
    np_ = os.path.join(VERIF, "seeded", sid, "notes.md")
    summ = ""
    if os.path.exists(np_):
        summ = open(np_).readline().strip().lstrip("# ").strip()
        summ = re.sub(r"^(C\d\d\s*/?\s*)?(mutant\s*)?m?\d\s*[-—:]+\s*", "", summ, flags=re.I)
        summ = summ.replace("|", "/")[:150]
    cls = "; ".join("%s: %s" % (k, ", ".join(v[:2])) for k, v in sorted((meta.get("violation_classes") or {}).items()))
    cb = meta.get("caught_by") or []
    n += 1
    ncaught += bool(cb)
    nown += meta["breaks_property"] in cb
    rows.append("| %s | %s | %s | %s | %s |" % (sid, summ, ", ".join(cb) or "**none**",
                                               ", ".join(meta.get("missed_by") or []) or "-", cls))
print("%d variants; %d caught by at least one check, %d by the check of the property they were written against\n" % (n, ncaught, nown))
print("| variant | what was changed (first line of its notes.md) | caught by (quick tier, default VERIF_SEED) | run against, not caught | violation classes reported |")
print("|---|---|---|---|---|")
print("\n".join(rows))
