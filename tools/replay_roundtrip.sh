#!/bin/bash
# usage: replay_roundtrip.sh <seeded-id> <CHECK-ID>
# Sensitivity + replay self-test: apply a seeded faulty variant in a scratch worktree, run the check until it reports a
# VIOLATION, then (1) dst replay <file> against the faulty tree must exit 1 twice with identical output (exact replay),
# (2) dst replay <file> against the unchanged tree must exit 0 (NOT-REPRODUCED).
set -u
SID=$1; PID=$2
D=/tmp/rr_$$_$RANDOM
git -C /repo worktree add -q --detach $D HEAD || exit 3
git -C $D apply /verif/seeded/$SID/patch.diff || { git -C /repo worktree remove --force $D; exit 3; }
out=$(TEAAL_REPO=$D VERIF_NOEVIDENCE=1 timeout 1500 /verif/dst check $PID --tier quick 2>&1)
f=$(echo "$out" | grep -m1 "^VIOLATION" | sed 's/.*replay=//')
if [ -z "$f" ]; then echo "$SID/$PID: no violation reported"; git -C /repo worktree remove --force $D; exit 1; fi
cp $f /tmp/rr_replay_$$.json
a=$(TEAAL_REPO=$D timeout 600 /verif/dst replay /tmp/rr_replay_$$.json 2>&1); ra=$?
b=$(TEAAL_REPO=$D timeout 600 /verif/dst replay /tmp/rr_replay_$$.json 2>&1); rb=$?
c=$(timeout 600 /verif/dst replay /tmp/rr_replay_$$.json 2>&1); rc=$?
git -C /repo worktree remove --force $D
same=no; [ "$a" == "$b" ] && same=yes
echo "$SID/$PID: replay on faulty tree rc=$ra/$rb identical_output=$same ; on unchanged tree rc=$rc ($(echo "$c" | tail -1 | cut -c1-80))"
steps=$(python3 -c "import json;d=json.load(open('/tmp/rr_replay_$$.json'));print('minimise_steps=%s replay_verified=%s'%(d.get('minimise_steps'),d.get('replay_verified')))")
echo "   $steps"
rm -f /tmp/rr_replay_$$.json
[ $ra -eq 1 ] && [ $rb -eq 1 ] && [ $rc -eq 0 ] && [ $same == yes ]
