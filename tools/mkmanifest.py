#!/usr/bin/env python3
"""Regenerates /verif/MANIFEST.json from the table below (single source of truth)."""
import json
import os

VERIF = os.path.dirname(os.path.dirname(os.path.abspath(__file__)))

NA = {
    "C01": "pure function of its input: for unpartitioned, non-metrics specifications the emitted text is a function of the specification alone (one text under every hash seed measured), there is no cross-call state, schedule, clock or fault for a simulator to own; deciding it is input generation against a model, which is not this technique (DESIGN section 6, C01)",
    "C09": "pure function of its input: the printer gen() is a recursive function of the tree it is given; no schedule, history or fault enters (DESIGN section 6, C09)",
    "C17": "pure function of its input: five stateless Lark grammars plus deterministic post-passes, string in, tree out; nothing for a simulator to schedule or fault (DESIGN section 6, C17)",
    "C18": "pure function of its input: acceptance or rejection is decided from the specification alone in constructors; no schedule, history or fault can change it (DESIGN section 6, C18)",
}

REPL = "deterministic simulation: N lock-step compiler replicas (one CPython node per interpreter hash seed = the schedule of set/dict/graph iteration), seeded %s workload, "
EXPL = "seeded exploration of (specification x hash-seed schedule)%s; every unit exactly replayable from its replay file in fresh interpreters with the recorded PYTHONHASHSEED; a clean batch is evidence, not proof"
BASE = "trusted base: reference runtime model/rt.py (stub for fibertree, validated against the authors' golden programs at setup), dense model model/dense.py, CPython; hash seeds are sampled (8 quick / 32 thorough)"

# id -> (technique, level text, level note, design ref, quick timeout s, thorough timeout s)
CHECKS = {
    "C02": (REPL % "class-S (shape partitioning)" + "every emitted text executed on a reference runtime and compared with a dense Einsum model",
            EXPL % "", BASE, "6 (C02)", 900, 3600),
    "C03": (REPL % "class-O (occupancy partitioning, flattening)" + "every emitted text executed on a reference runtime and compared with a dense Einsum model",
            EXPL % "", BASE, "6 (C03)", 900, 3600),
    "C04": (REPL % "class-A (affine accesses, partitioned index-math ranks)" + "reference runtime vs dense model plus extent bound; known findings attributed only by counterfactual re-execution of the emitted text",
            EXPL % "; known findings K1-K3 reported as KNOWN-FINDING through fixed witnesses", BASE + "; single-text specs run as baseline and are reported separately in evidence", "6 (C04)", 900, 3600),
    "C05": ("deterministic simulation of compilation histories: every subsequence of a seeded cascade is compiled on every hash-seed node and checked against a memoryless-compiler reference model (text of S+[E] = text(S) ++ shifted stand-alone text of E); full program executed against chained dense evaluation",
            EXPL % " and of (history of Einsums translated earlier)", BASE + "; temporaries numbered by one monotone counter", "6 (C05)", 900, 3600),
    "C06": (REPL % "mixed-class (S/O/A/A+/K/T/TK plain and spacetime, M/Mp metrics)" + "every distinct text reached under any seed analysed by a definite-assignment pass against a spec-derived free-name set, and executed",
            EXPL % "", "trusted base: closedness analyser model/closed.py and its allowed-name rules (DESIGN 4.3); reference runtime for the run-time NameError cross-check", "6 (C06)", 900, 3600),
    "C07": (REPL % "mixed-class (S/O/A/K/P)" + "post-run audit of the namespace left by the emitted program on the reference runtime (names vs rank ids, result binding, input snapshots)",
            EXPL % "", BASE, "6 (C07)", 900, 3600),
    "C08": (REPL % "partitioned mixed-class" + "replica-agreement invariants: same-process recompile identical, every text closed, identical tensors under the final name of every declared tensor on identical inputs, same accept/reject on every seed; compile twice from one set of parsed objects",
            EXPL % "; distinct texts per spec reported as the measure of interleavings reached", BASE, "6 (C08)", 900, 3600),
    "C16": (REPL % "class-T (spacetime over P/S/O/A Einsums and over cascades)" + "recording canvas stand-in; history check of createCanvas/addActivity/displayCanvas events against executed updates, point arities and stamp uniqueness",
            EXPL % "", BASE + "; canvas is a recording stand-in", "6 (C16)", 900, 3600),
    "C19": (REPL % "omitted-mapping (classes S, O, K, P, A, A2; about one class-S spec in twenty with ten or eleven shape levels on one rank)" + "per seed, the spec as written and variants with the omitted section written out as the independently computed canonical default must compile to byte-identical text",
            EXPL % "", "trusted base: the harness's own computation of the canonical default from the YAML (gen/classes.py effective_loop_order)", "6 (C19)", 900, 3600),
    "C10": ("deterministic simulation with a schedule seam: teaal.ir.flow_graph's topological_sort replaced, per unit, by Kahn's algorithm whose tie-breaks the simulator's PRNG decides (plus the real hash-seed orders); tie-break strategies: newest-first, oldest-first, uniformly random, and targeted ones scheduling one PRNG-chosen node as early / as late as its dependences allow; order / nesting / hoisting invariants on (flow graph, statement sequence) of every flow graph the translation builds, no name read before the statement that binds it, and dense-model agreement of the full translation under every tie-break",
            "seeded exploration of (specification x hash seed x tie-break stream): 8 quick / 48 thorough linear extensions per (spec, seed); replayable (recorded picks); evidence, not proof",
            "trusted base: the compiler's own (pruned) dependence graph for the edge invariant - a lost edge is only caught through the closedness/dense cross-check under fuzzed tie-breaks", "6 (C10)", 900, 3600),
    "C11": (REPL % "class-M (architecture/bindings/format)" + "metrics-mode program and its plain-mode twin executed on identical inputs with inert recording stand-ins; tensors compared under every common name and with the dense model",
            EXPL % "", BASE + "; Metrics/Traffic/Compute/Format/intersector models are inert stand-ins (model/standins.py)", "6 (C11)", 900, 3600),
    "C12": (REPL % "class-M" + "emitted metrics program run against a simulated trace-file store; produce-before-consume / open-close check over the recorded event history (global sequence numbers)",
            EXPL % "", "trusted base: trace-store semantics of the stand-ins (endCollect materialises registered traces; filterTrace reads two names and writes one); class-M bindings follow the accelerator patterns", "6 (C12)", 900, 3600),
    "C13": ("deterministic simulation of operation histories: seeded histories of 2-6 Einsums fed step by step to real Program/Hardware/Fusion objects with the block invariant checked after every step, plus whole class-M compilations whose executed dump yields metrics['blocks']; oracle recomputed from the YAML",
            "seeded exploration of histories (no schedule or fault dimension exists for this property); replayable; evidence, not proof",
            "trusted base: the harness's spec-side model of configuration, temporal prefix and bound functional components (model/metrics_oracle.py)", "6 (C13)", 900, 3600),
    "C14": (REPL % "class-M cascade" + "counting stand-ins hand out exact spaced values; the program is re-executed once per handed-out value with that value boosted so every component dominates its block in some run; roll-up and per-component formula recomputed from the YAML",
            EXPL % " and of valuations", "trusted base: arithmetic in Fractions; spec-side model of clock, bandwidth and instance counts (model/metrics_oracle.py)", "6 (C14)", 900, 3600),
    "C15": ("deterministic simulation of compilation histories with fault injection: seeded histories of parse / compile-on-shared-objects / compile-fresh operations with injected rejected compilations and compilations aborted at the n-th teaal line event (sys.settrace), each history in a pristine child per hash seed; invariants after every operation: deep snapshots of parsed objects unchanged, every text equals the pristine-fork reference T(spec, seed)",
            "seeded exploration of (history x fault points x hash seed); fault-free and fault-injecting histories separate; replayable; evidence, not proof",
            "trusted base: generic deep snapshot (units/c15.py freeze) of the five parsed objects; aborts raised only in teaal's own frames", "6 (C15)", 1500, 3600),
}

PLANNED = []


def main():
    checks = []
    for pid, (tech, text, note, ref, qt, tt) in sorted(CHECKS.items()):
        checks.append({
            "property_id": pid,
            "quick_cmd": "timeout %d /verif/dst check %s --tier quick" % (qt, pid),
            "thorough_cmd": "timeout %d /verif/dst check %s --tier thorough" % (tt, pid),
            "evidence_file": "/verif/evidence/%s.json" % pid,
            "replay_cmd_template": "/verif/dst replay {path}",
            "engine": "dst",
            "level_claimed": {"category": "exploration", "text": text, "design_ref": "DESIGN.md section " + ref},
            "level_note": note,
            "technique": tech,
        })
    na = [{"property_id": p, "reason": r} for p, r in sorted(NA.items())]
    for p in PLANNED:
        if p not in CHECKS:
            na.append({"property_id": p, "reason": "not claimed yet: the simulation check for this property is designed (DESIGN section 6) but not built at this commit"})
    m = {
        "version": 1,
        "setup_cmd": "timeout 900 /verif/dst selftest setup",
        "hooks": {
            "guard": "TEAAL_VERIF",
            "enable": "no hook in /repo is needed: every seam is harness-side (PYTHONHASHSEED per node, monkeypatched topological_sort proxy, sys.settrace abort injector); TEAAL_VERIF is reserved and unused",
            "baseline_off_cmd": "cd /repo && /venv/bin/python -m pytest -q -p no:cacheprovider --timeout=900",
            "source_commits": [],
            "add_only": True,
        },
        "engines": [{"name": "dst", "path": "/verif/dst", "serves_properties": sorted(CHECKS),
                     "kind_free_text": "deterministic simulation with fault injection: orchestrator + one CPython compile node per interpreter hash seed, seeded workload generators, reference HiFiber runtime, dense Einsum model, history/fault scripts, structured minimiser and replay"}],
        "checks": checks,
        "not_applicable": sorted(na, key=lambda x: x["property_id"]),
        "notes": "See DESIGN.md. Exit codes: 0 held / 1 VIOLATION / 2 harness error. VERIF_SEED selects the run; VERIF_BUDGET_S overrides the thorough time budget; TEAAL_REPO points the nodes at another tree (used for seeded mutants).",
    }
    with open(os.path.join(VERIF, "MANIFEST.json"), "w") as f:
        json.dump(m, f, indent=1)
    print("wrote MANIFEST.json with", len(checks), "checks,", len(na), "not applicable")


if __name__ == "__main__":
    main()
