#!/bin/bash
# usage: confirm_mut.sh <dir with patch.diff demo.py notes.md> <seeded-id> <property>
# Confirms in a scratch worktree of /repo HEAD: patch applies, 632 tests pass with it, demo fails with it and passes without it.
set -u
SRC=$1; SID=$2; PROP=$3
D=/tmp/cfm_$$_$RANDOM
git -C /repo worktree add -q --detach $D HEAD || exit 3
cd $D
PYTHONPATH=$D timeout 300 /venv/bin/python $SRC/demo.py > /tmp/cfm_clean.$$ 2>&1; rc_clean=$?
if ! git apply $SRC/patch.diff; then echo "$SID: PATCH DOES NOT APPLY"; cd /; git -C /repo worktree remove --force $D; exit 3; fi
tests=$(PYTHONPATH=$D timeout 900 /venv/bin/python -m pytest -q -p no:cacheprovider tests 2>&1 | tail -1)
PYTHONPATH=$D timeout 300 /venv/bin/python $SRC/demo.py > /tmp/cfm_mut.$$ 2>&1; rc_mut=$?
cd /
git -C /repo worktree remove --force $D
echo "$SID: tests='$tests' demo_clean_rc=$rc_clean demo_mutant_rc=$rc_mut"
if [[ "$tests" == *"632 passed"* && $rc_clean -eq 0 && $rc_mut -ne 0 ]]; then
  mkdir -p /verif/seeded/$SID
  cp $SRC/patch.diff $SRC/demo.py /verif/seeded/$SID/
  [ -f $SRC/notes.md ] && cp $SRC/notes.md /verif/seeded/$SID/
  python3 - "$SID" "$PROP" "$tests" "$(tail -3 /tmp/cfm_mut.$$ | tr '\n' ' ' | cut -c1-300)" <<'PY'
import json, sys, os
sid, prop, tests, msg = sys.argv[1:5]
p = '/verif/seeded/%s/meta.json' % sid
meta = json.load(open(p)) if os.path.exists(p) else {}
meta.update({"id": sid, "breaks_property": prop, "origin": "independent sub-agent given only the property text and a scratch worktree",
             "confirmed": {"tests_with_patch": tests, "demo_on_clean_tree_rc": 0, "demo_with_patch": msg,
                           "how": "tools/confirm_mut.sh: scratch worktree of /repo HEAD, git apply, full pytest, demo.py with and without the patch"}})
meta.setdefault("needs_to_manifest", "see notes.md")
meta.setdefault("caught_by", [])
json.dump(meta, open(p, 'w'), indent=1)
PY
  echo "$SID: KEPT"
else
  echo "$SID: NOT KEPT"
fi
rm -f /tmp/cfm_clean.$$ /tmp/cfm_mut.$$
