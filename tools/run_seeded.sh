#!/bin/bash
# usage: run_seeded.sh [id | id:CHECK ...]   -- runs seeded faulty variants against the quick check of the property they break
# (or of another property when written id:CHECK)
cd /verif/seeded
ids=${@:-$(ls)}
for x in $ids; do
  sid=${x%%:*}
  if [[ "$x" == *:* ]]; then prop=${x##*:}; else
    prop=$(python3 -c "import json;print(json.load(open('/verif/seeded/$sid/meta.json'))['breaks_property'])"); fi
  echo "=== $sid vs $prop"
  /verif/tools/trymut.sh /verif/seeded/$sid/patch.diff $prop | grep -E "^(VIOLATION|DONE|rc=|PATCH|HARNESS)" | cut -c1-260 | head -14
done
