#!/bin/bash
# usage: run_seeded.sh [id | id:CHECK ...]
# Runs seeded faulty variants against the quick check of the property they break (or of another property when
# written id:CHECK), with the checks of THIS checkout.
HERE=$(dirname $(readlink -f $0))/..
ids=${@:-$(ls $HERE/seeded)}
for x in $ids; do
  sid=${x%%:*}
  if [[ "$x" == *:* ]]; then prop=${x##*:}; else
    prop=$(python3 -c "import json;print(json.load(open('$HERE/seeded/$sid/meta.json'))['breaks_property'])"); fi
  echo "=== $sid vs $prop"
  $HERE/tools/trymut.sh $HERE/seeded/$sid/patch.diff $prop | grep -E "^(VIOLATION|DONE|rc=|PATCH|HARNESS)" | cut -c1-260 | head -14
done
