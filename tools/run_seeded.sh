#!/bin/bash
# usage: run_seeded.sh [ids...]   -- runs every seeded mutant against the quick check of the property it breaks
cd /verif/seeded
ids=${@:-$(ls)}
for sid in $ids; do
  prop=$(python3 -c "import json;print(json.load(open('/verif/seeded/$sid/meta.json'))['breaks_property'])")
  echo "=== $sid vs $prop"
  /verif/tools/trymut.sh /verif/seeded/$sid/patch.diff $prop | grep -E "^(VIOLATION|DONE|rc=|PATCH|HARNESS)" | cut -c1-260 | head -14
done
