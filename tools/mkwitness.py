#!/venv/bin/python
"""Builds /verif/witnesses/*.json: one fixed unit per known finding (run once by hand;
the files are committed and only read at check time)."""
import json
import os
import random
import sys

VERIF = os.path.dirname(os.path.dirname(os.path.abspath(__file__)))
sys.path[:0] = ["/repo", VERIF]
from gen import classes, spec as specmod  # noqa
import units  # noqa

W = {
    "C04-K1": dict(props=["C04"], yaml="""
einsum:
  declaration:
    I: [W]
    F: [S]
    O: [Q]
  expressions:
    - O[q] = I[3 * q + s] * F[s]
mapping:
  loop-order:
    O: [S, Q]
""", extents={"Q": 3, "S": 2, "W": 8}, what="rational coefficient 1/3 evaluated in floating point: projected coordinate 0.9999999999999999 is dropped by the `c % 1 == 0` prune (CoordAccess.build_expr + Equation.__iter_fiber); O[q] = I[3*q+s]*F[s], loop order [S, Q]"),
    "C04-K2": dict(props=["C04"], yaml="""
einsum:
  declaration:
    I: [W]
    F: [S]
    O: [Q]
  expressions:
    - O[q] = I[q + s] * F[s]
mapping:
  partitioning:
    O:
      Q: [uniform_shape(2)]
      W: [follow(Q)]
  loop-order:
    O: [Q1, S, Q0]
""", extents={"Q": 1, "S": 3, "W": 3}, what="Equation.make_interval: q0_end = inputs_q1.getCoords()[q1_pos + 1] is not clipped to Q, so output elements beyond the declared extent are created; O[q] = I[q+s]*F[s], Q=1, S=3, Q: [uniform_shape(2)], loop order [Q1, S, Q0]"),
    "C04-K3": dict(props=["C04"], yaml="""
einsum:
  declaration:
    I: [W]
    F: [S]
    O: [Q]
  expressions:
    - O[q] = I[q + s] * F[s]
mapping:
  partitioning:
    O:
      Q: [uniform_shape(4), uniform_shape(2)]
      W: [follow(Q)]
  loop-order:
    O: [Q2, Q1, Q0, S]
""", extents={"Q": 6, "S": 3, "W": 8}, what="two shape levels on an index-math rank with a non-zero halo: the middle level is projected without interval and q0_start = 0 for the first inner partition of every outer partition, so contributions are counted several times; O[q] = I[q+s]*F[s], Q: [uniform_shape(4), uniform_shape(2)]"),
    "OUTONLY-INVERTED": dict(props=["C02", "C06", "C08"], yaml="""
einsum:
  declaration:
    A: [Q]
    Z: [N, Q]
  expressions:
    - Z[n, q] = A[q]
mapping:
  partitioning:
    Z:
      N: [uniform_shape(2)]
  loop-order:
    Z: [N0, N1, Q]
""", extents={"N": 4, "Q": 3}, what="output-only rank partitioned by shape with its inner level looped outside its outer level: the inner iterRangeShapeRef reads the outer loop variable (n1) before it is bound -> NameError / not closed (Equation.__make_iter_expr, output-only branch); Z[n,q] = A[q], N: [uniform_shape(2)], loop order [N0, N1, Q]"),
    "OUTONLY-CLIP": dict(props=["C02"], yaml="""
einsum:
  declaration:
    A: [Q]
    Z: [K, Q]
  expressions:
    - Z[k, q] = A[q]
mapping:
  partitioning:
    Z:
      K: [uniform_shape(3), uniform_shape(2)]
""", extents={"K": 8, "Q": 2}, what="output-only rank with two shape levels whose inner step does not divide the outer step: the inner iterRangeShapeRef is clipped against the extent only, not against the enclosing partition, so elements are written twice; Z[k,q] = A[q], K: [uniform_shape(3), uniform_shape(2)], K=8"),
    "C16-FLATCOORD": dict(props=["C16", "C06"], yaml="""
einsum:
  declaration:
    Z: []
    A: [J, N]
  expressions:
    - Z[] = A[j, n]
mapping:
  partitioning:
    Z:
      (J, N): [flatten()]
  loop-order:
    Z: [JN]
  spacetime:
    Z:
      space: [JN.coord]
      time: []
""", extents={"J": 2, "N": 3}, what="coordinate-style spacetime stamp on a flattened rank: Canvas.__rel_coord emits the flattened rank's lower-cased name (jn), which no statement binds - the loop binds the tuple (j, n) - so the program is not closed / raises NameError; Z[] = A[j,n], (J, N): [flatten()], space: [JN.coord]"),
}


def main():
    for kid, w in W.items():
        spec = specmod.from_yaml(w["yaml"])
        rng = random.Random(7)
        inp = classes.gen_inputs(rng, spec, w["extents"], {}, "dense")
        args = {"spec": spec, "inputs": [inp], "counterfactuals": [["K1"], ["K2"], ["K1", "K2"]], "canvas": True}
        r = units.run_spec(args)
        run = r["runs"][0] if r["status"] == "ok" else None
        print(kid, r["status"], r.get("closed"), run and run["exec"], run and run.get("error"),
              run and {o: d["status"] for o, d in run.get("outputs", {}).items()}, run and run.get("cf"),
              run and [d["out_of_extent"] for d in run.get("outputs", {}).values()])
        doc = {"id": kid, "properties": w["props"], "what": w["what"], "yaml": specmod.to_yaml(spec), "spec": spec,
               "meta": {"syms": {}, "extents": w["extents"], "mode": "plain"}, "inputs": [inp], "hash_seeds": [0]}
        with open(os.path.join(VERIF, "witnesses", kid + ".json"), "w") as f:
            json.dump(doc, f, indent=1)


if __name__ == "__main__":
    main()
