#!/bin/bash
# usage: run_all_quick.sh <VERIF_SEED> [ids...]  -- all quick checks on the unchanged tree, evidence untouched; one summary line each
S=${1:-20260923}; shift
ids=${@:-C02 C03 C04 C05 C06 C07 C08 C10 C11 C12 C13 C14 C15 C16 C19}
for p in $ids; do
  out=$(VERIF_SEED=$S VERIF_NOEVIDENCE=1 timeout 1500 $(dirname $(readlink -f $0))/../dst check $p --tier quick 2>&1); rc=$?
  echo "== $p seed=$S rc=$rc $(echo "$out" | grep -E '^DONE' | cut -c1-200)"
  echo "$out" | grep -E "^(VIOLATION|  class|KNOWN|HARNESS|NOTE)" | cut -c1-500 | head -12
done
