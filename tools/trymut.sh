#!/bin/bash
# usage: trymut.sh <patch.diff> <CHECK-ID> [VERIF_SPECS]   -- runs a check against a scratch worktree of /repo with the patch applied
set -u
PATCH=$1; PID=$2; SPECS=${3:-}
D=/tmp/scr_$$_$RANDOM
git -C /repo worktree add -q --detach $D HEAD || exit 3
if ! git -C $D apply $PATCH; then echo "PATCH DOES NOT APPLY"; git -C /repo worktree remove --force $D; exit 3; fi
if [ -n "$SPECS" ]; then export VERIF_SPECS=$SPECS; fi
TEAAL_REPO=$D VERIF_NOEVIDENCE=1 timeout 1500 /verif/dst check $PID --tier quick 2>&1 | grep -E "^(VIOLATION|  class|DONE|KNOWN|HARNESS)" | cut -c1-400
rc=${PIPESTATUS[0]}
git -C /repo worktree remove --force $D
echo "rc=$rc"
