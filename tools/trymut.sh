#!/bin/bash
# usage: trymut.sh <patch.diff> <CHECK-ID> [VERIF_SPECS]
# Runs a check of THIS checkout against a scratch worktree of /repo with the patch applied.
set -u
HERE=$(dirname $(readlink -f $0))/..
PATCH=$1; PID=$2; SPECS=${3:-}
D=/tmp/scr_$$_$RANDOM
git -C /repo worktree add -q --detach $D HEAD || exit 3
if ! git -C $D apply $PATCH; then echo "PATCH DOES NOT APPLY"; git -C /repo worktree remove --force $D; exit 3; fi
if [ -n "$SPECS" ]; then export VERIF_SPECS=$SPECS; fi
TEAAL_REPO=$D VERIF_NOEVIDENCE=1 timeout 1500 $HERE/dst check $PID --tier quick 2>&1 | grep -E "^(VIOLATION|  class|DONE|KNOWN|HARNESS)" | cut -c1-400
rc=${PIPESTATUS[0]}
git -C /repo worktree remove --force $D
echo "rc=$rc"
