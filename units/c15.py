"""
C15 unit: one compilation history with faults, run inside a pristine child of a template
node.  State: bundles (spec, parsed objects, snapshot taken at parse time).  After every
operation: every untainted bundle still equals its snapshot and every successful
compilation returned exactly T(spec, h) - the text obtained in a pristine fork.
"""
import json
import os
import sys
import traceback

import units


class SimAbort(BaseException):
    """Injected fault: the compilation is interrupted at an arbitrary teaal line."""


def freeze(x, depth=0, seen=None):
    """Deep, order-preserving plain view of parsed objects (dict order matters: it is observable)."""
    if depth > 40:
        return "<deep>"
    if x is None or isinstance(x, (bool, int, float, str)):
        return x
    if isinstance(x, dict):
        return ["dict"] + [[freeze(k, depth + 1), freeze(v, depth + 1)] for k, v in x.items()]
    if isinstance(x, (list, tuple)):
        return [type(x).__name__] + [freeze(v, depth + 1) for v in x]
    if isinstance(x, (set, frozenset)):
        return ["set"] + sorted((freeze(v, depth + 1) for v in x), key=repr)
    cls = type(x).__name__
    if cls == "Tree":
        return ["Tree", str(x.data)] + [freeze(c, depth + 1) for c in x.children]
    if cls == "Token":
        return ["Token", str(x.type), str(x)]
    if hasattr(x, "__dict__"):
        return [cls] + [[k, freeze(v, depth + 1)] for k, v in vars(x).items()]
    return [cls, repr(x)]


def parse_bundle(yaml_text, mode):
    from teaal.parse import Einsum, Mapping, Architecture, Bindings, Format
    objs = [Einsum.from_str(yaml_text), Mapping.from_str(yaml_text)]
    if mode == "metrics":
        objs += [Architecture.from_str(yaml_text), Bindings.from_str(yaml_text), Format.from_str(yaml_text)]
    return objs


def compile_objs(objs):
    from teaal.trans.hifiber import HiFiber
    return str(HiFiber(*objs))


def pristine_text(yaml_text, mode, timeout=60):
    """T(spec, h): compile in a fork of this (still pristine) interpreter."""
    import select
    import signal
    r, w = os.pipe()
    pid = os.fork()
    if pid == 0:
        # grandchild: whatever happens, never return into the caller's frames
        try:
            os.close(r)
            signal.alarm(timeout)
            try:
                out = {"text": compile_objs(parse_bundle(yaml_text, mode))}
            except BaseException as e:  # noqa
                out = {"error": "%s: %s" % (type(e).__name__, str(e)[:200])}
            data = json.dumps(out).encode()
            off = 0
            while off < len(data):
                off += os.write(w, data[off:off + 65536])
        finally:
            os._exit(0)
    os.close(w)
    buf = b""
    while True:
        ready, _, _ = select.select([r], [], [], timeout + 5)
        if not ready:
            try:
                os.kill(pid, signal.SIGKILL)
            except OSError:
                pass
            break
        b = os.read(r, 1 << 20)
        if not b:
            break
        buf += b
    os.close(r)
    os.waitpid(pid, 0)
    try:
        return json.loads(buf) if buf else {"error": "pristine child died or timed out"}
    except ValueError:
        return {"error": "pristine child wrote a truncated result"}


class LineCounter:
    def __init__(self, abort_at=None):
        self.n = 0
        self.abort_at = abort_at
        self.where = None
        self.first_seen = {}     # function -> index of its first line event (counting pass only)

    def tracer(self, frame, event, arg):
        if "/teaal/" not in frame.f_code.co_filename:
            return None    # never trace inside lark / sympy / networkx frames
        return self.local

    def local(self, frame, event, arg):
        if event == "line":
            self.n += 1
            if self.abort_at is None:
                key = frame.f_code
                if key not in self.first_seen:
                    self.first_seen[key] = self.n
            elif self.n == self.abort_at:
                self.where = "%s:%s" % (frame.f_code.co_filename.split("/teaal/")[-1], frame.f_code.co_name)
                raise SimAbort()
        return self.local


def traced_compile(objs, abort_at):
    lc = LineCounter(abort_at)
    old = sys.gettrace()
    sys.settrace(lc.tracer)
    try:
        text = compile_objs(objs)
        return "completed", text, lc
    except SimAbort:
        return "aborted", None, lc
    finally:
        sys.settrace(old)


def c15_unit(args):
    specs = args["specs"]          # list of {"yaml":..., "mode":..., "legal": bool, "name":...}
    ops = args["ops"]              # list of [op, ...]
    out = {"status": "ok", "events": [], "violations": [], "faults": {"rejected": 0, "aborted": 0, "abort_missed": 0},
           "abort_sites": [], "compiles": 0}
    # reference model: T(spec, h) from pristine forks, before anything is compiled here
    T = {}
    for i, s in enumerate(specs):
        if s["legal"]:
            T[i] = pristine_text(s["yaml"], s["mode"])
    out["reference_errors"] = {str(i): t["error"] for i, t in T.items() if "error" in t}
    bundles = []   # dict(spec=i, objs, snap, tainted)

    def check_all(after):
        for bi, b in enumerate(bundles):
            if b["tainted"]:
                continue
            now = freeze(b["objs"])
            if now != b["snap"]:
                which = [type(o).__name__ for o, a, c in zip(b["objs"], now[1:], b["snap"][1:]) if a != c]
                out["violations"].append({"kind": "parsed_objects_mutated", "after_op": after, "bundle": bi,
                                          "spec": specs[b["spec"]]["name"], "objects": which})
                b["snap"] = now   # report each mutation once

    def check_text(i, text, after):
        ref = T.get(i, {})
        if "text" in ref and text != ref["text"]:
            a, bb = text.split("\n"), ref["text"].split("\n")
            j = next((k for k in range(min(len(a), len(bb))) if a[k] != bb[k]), min(len(a), len(bb)))
            out["violations"].append({"kind": "text_depends_on_history", "after_op": after, "spec": specs[i]["name"],
                                      "first_diff_line": j + 1, "got": a[j] if j < len(a) else None,
                                      "pristine": bb[j] if j < len(bb) else None})

    for oi, op in enumerate(ops):
        kind = op[0]
        ev = {"op": op}
        try:
            if kind == "parse":
                i = op[1]
                objs = parse_bundle(specs[i]["yaml"], specs[i]["mode"])
                # a bundle of a spec that does not compile even in a pristine fork is tainted from the start
                bundles.append({"spec": i, "objs": objs, "snap": freeze(objs), "tainted": "error" in T.get(i, {})})
            elif kind == "compile":        # on shared parsed objects
                if not bundles:
                    continue
                b = bundles[op[1] % len(bundles)]
                if b["tainted"]:
                    ev["skipped"] = "tainted"
                else:
                    try:
                        text = compile_objs(b["objs"])
                        out["compiles"] += 1
                        if "error" in T.get(b["spec"], {}):
                            ev["note"] = "pristine compile fails too"
                        else:
                            check_text(b["spec"], text, oi)
                    except Exception as e:
                        if "text" in T.get(b["spec"], {}):
                            out["violations"].append({"kind": "recompile_from_same_objects_fails", "after_op": oi,
                                                      "spec": specs[b["spec"]]["name"],
                                                      "error": "%s: %s" % (type(e).__name__, str(e)[:200])})
                            b["tainted"] = True
            elif kind == "compile_fresh":
                i = op[1]
                try:
                    text = compile_objs(parse_bundle(specs[i]["yaml"], specs[i]["mode"]))
                    out["compiles"] += 1
                    check_text(i, text, oi)
                except Exception as e:
                    if "text" in T.get(i, {}):
                        out["violations"].append({"kind": "fresh_compile_fails_after_history", "after_op": oi,
                                                  "spec": specs[i]["name"], "error": "%s: %s" % (type(e).__name__, str(e)[:200])})
            elif kind == "compile_rejected":   # fault: an illegal specification in the history
                i = op[1]
                try:
                    compile_objs(parse_bundle(specs[i]["yaml"], specs[i]["mode"]))
                    ev["note"] = "illegal spec was accepted"
                except Exception:
                    out["faults"]["rejected"] += 1
            elif kind == "compile_aborted":    # fault: interrupt at the n-th teaal line event
                i, frac, shared = op[1], op[2], op[3]
                if shared and bundles:
                    b = bundles[op[4] % len(bundles)]
                    objs, i = b["objs"], b["spec"]
                else:
                    b = None
                    objs = parse_bundle(specs[i]["yaml"], specs[i]["mode"])
                if "error" in T.get(i, {}):
                    ev["skipped"] = "spec does not compile"
                    check_all(oi)
                    out["events"].append(ev)
                    continue
                total = specs[i].get("lines")
                if not total:
                    # count on fresh objects first (an ordinary, completed compilation)
                    try:
                        st, text, lc = traced_compile(parse_bundle(specs[i]["yaml"], specs[i]["mode"]), None)
                    except Exception as e:
                        # an ordinary fresh compilation of a spec that compiles in a pristine interpreter
                        out["violations"].append({"kind": "fresh_compile_fails_after_history", "after_op": oi,
                                                  "spec": specs[i]["name"], "error": "%s: %s" % (type(e).__name__, str(e)[:200])})
                        break
                    total = specs[i]["lines"] = max(1, lc.n)
                    specs[i]["sites"] = sorted(lc.first_seen.values())
                    out["compiles"] += 1
                    check_text(i, text, oi)
                sites = specs[i].get("sites") or []
                if sites and int(frac * 1000) % 2:
                    # land inside a function chosen uniformly among all teaal functions the compile enters
                    # (uniform line sampling alone lands almost only in the hot hashing/repr code)
                    j = int(frac * len(sites)) % len(sites)
                    n = sites[j] + int(frac * 7919) % 3
                else:
                    n = max(1, int(frac * total))
                try:
                    st, text, lc = traced_compile(objs, n)
                except Exception as e:
                    out["violations"].append({"kind": "fresh_compile_fails_after_history" if b is None else "recompile_from_same_objects_fails",
                                              "after_op": oi, "spec": specs[i]["name"],
                                              "error": "%s: %s" % (type(e).__name__, str(e)[:200])})
                    break
                if st == "aborted":
                    out["faults"]["aborted"] += 1
                    out["abort_sites"].append(lc.where)
                    if b is not None:
                        b["tainted"] = True    # nothing is promised about objects of an aborted compile
                else:
                    out["faults"]["abort_missed"] += 1
                    check_text(i, text, oi)
        except SimAbort:
            raise
        except Exception:
            out["status"] = "harness"
            out["error"] = traceback.format_exc()[-1500:]
            return out
        check_all(oi)
        out["events"].append(ev)
        if out["violations"]:
            break
    return out
