"""
C10 unit: statement order respects every dependence, under real hash seeds (layer 1)
and under simulator-chosen topological tie-breaks (layer 2).
"""
import random
import traceback

from gen import spec as specmod
from model import closed
import units


class NxProxy:
    """Stands in for the `nx` module inside teaal.ir.flow_graph: topological_sort is Kahn's
    algorithm choosing among the ready nodes with the unit's PRNG; everything else is networkx."""

    def __init__(self, real, rng, strategy="random"):
        self._real = real
        self._rng = rng
        self._strategy = strategy
        self.picks = []
        self.choices = 0

    def __getattr__(self, name):
        return getattr(self._real, name)

    def topological_sort(self, G):
        indeg = {n: d for n, d in G.in_degree()}
        ready = [n for n in G.nodes if indeg[n] == 0]
        out = []
        # targeted strategies: one node of the graph is scheduled as early ("early") or as late ("late") as its
        # dependences allow; a lost edge into / out of that node then shows as a use before its definition
        favoured = None
        kind = self._strategy
        if kind in ("early", "late") and G.number_of_nodes():
            nodes = list(G.nodes)
            target = nodes[self._rng.randrange(len(nodes))]
            if kind == "early":
                favoured = set(self._real.ancestors(G, target)) | {target}
            else:
                favoured = set(nodes) - (set(self._real.descendants(G, target)) | {target})
        while ready:
            if len(ready) > 1:
                self.choices += 1
                if kind == "lifo":
                    i = len(ready) - 1
                elif kind == "fifo":
                    i = 0
                elif favoured is not None:
                    fav = [j for j, n in enumerate(ready) if n in favoured]
                    pool = fav or list(range(len(ready)))
                    i = pool[self._rng.randrange(len(pool))]
                else:
                    i = self._rng.randrange(len(ready))
            else:
                i = 0
            self.picks.append(i)
            n = ready.pop(i)
            out.append(n)
            for m in G.successors(n):
                indeg[m] -= 1
                if indeg[m] == 0:
                    ready.append(m)
        if len(out) != G.number_of_nodes():
            raise self._real.NetworkXUnfeasible("Graph contains a cycle")
        return iter(out)


def check_order(graph, order, loop_ranks):
    """Invariants on (flow graph, statement sequence). -> list of problem dicts"""
    from teaal.ir.flow_nodes import LoopNode, EndLoopNode, OtherNode
    import networkx as nx
    probs = []
    nodes = list(graph.nodes)
    if len(order) != len(nodes) or set(map(repr, order)) != set(map(repr, nodes)) or len(set(map(repr, order))) != len(order):
        probs.append({"kind": "not_a_permutation", "sorted": len(order), "graph": len(nodes)})
        return probs
    pos = {repr(n): i for i, n in enumerate(order)}
    for u, v in graph.edges:
        if pos[repr(u)] >= pos[repr(v)]:
            probs.append({"kind": "dependence_violated", "before": repr(v), "after": repr(u)})
            if len(probs) > 3:
                return probs
    # nesting
    stack = []
    seq = []
    body_pos = None
    for i, n in enumerate(order):
        if isinstance(n, LoopNode):
            stack.append(n.get_rank())
            seq.append(n.get_rank())
        elif isinstance(n, EndLoopNode):
            if not stack or stack[-1] != n.get_rank():
                probs.append({"kind": "loops_not_nested", "at": repr(n), "open": list(stack)})
                return probs
            stack.pop()
        elif isinstance(n, OtherNode) and n.get_type() == "Body":
            body_pos = i
            if stack != list(loop_ranks):
                probs.append({"kind": "body_not_innermost", "open": list(stack), "loop_order": list(loop_ranks)})
        elif isinstance(n, OtherNode) and n.get_type() == "Footer":
            if stack:
                probs.append({"kind": "footer_inside_loop", "open": list(stack)})
    if stack:
        probs.append({"kind": "loop_not_closed", "open": list(stack)})
    if seq != list(loop_ranks):
        probs.append({"kind": "loops_not_in_loop_order", "opened": seq, "loop_order": list(loop_ranks)})
    if body_pos is None:
        probs.append({"kind": "no_body"})
    # nothing placed before Loop(r) may depend on it
    for r in loop_ranks:
        ln = LoopNode(r)
        if repr(ln) not in pos:
            continue
        desc = {repr(d) for d in nx.descendants(graph, ln)}
        for n in order[:pos[repr(ln)]]:
            if repr(n) in desc:
                probs.append({"kind": "hoisted_above_loop_it_depends_on", "node": repr(n), "loop": r})
                break
    return probs


def _flow_graphs(yaml_text, mode):
    """Yield (einsum index, graph, sorted, loop ranks) through the public IR API."""
    from teaal.parse import Einsum, Mapping, Architecture, Bindings, Format
    from teaal.ir.program import Program
    from teaal.ir.flow_graph import FlowGraph
    e = Einsum.from_str(yaml_text)
    m = Mapping.from_str(yaml_text)
    program = Program(e, m)
    hardware = fmt = fusion = None
    if mode == "metrics":
        from teaal.ir.hardware import Hardware
        from teaal.ir.fusion import Fusion
        hardware = Hardware(Architecture.from_str(yaml_text), Bindings.from_str(yaml_text), program)
        fmt = Format.from_str(yaml_text)
        fusion = Fusion(hardware)
    for i in range(len(e.get_expressions())):
        program.add_einsum(i)
        metrics = None
        if hardware is not None:
            from teaal.ir.metrics import Metrics
            metrics = Metrics(program, hardware, fmt)
            fusion.add_einsum(program)
        fg = FlowGraph(program, metrics, ["hoist"])
        yield i, fg.get_graph(), fg.get_sorted(), list(program.get_loop_order().get_ranks())
        program.reset()


def _stored_names(text):
    import ast
    names = set()
    for node in ast.walk(ast.parse(text)):
        if isinstance(node, ast.Name) and isinstance(node.ctx, ast.Store):
            names.add(node.id)
    return names


class _Recorder:
    """Wraps teaal.trans.hifiber.FlowGraph for one compilation: every flow graph HiFiber builds is kept with the
    loop ranks of its Einsum (captured at construction, the Program object is re-used for the next Einsum)."""

    def __init__(self, real):
        self.real = real
        self.seen = []

    def __call__(self, program, metrics, opts):
        fg = self.real(program, metrics, opts)
        self.seen.append((fg, list(program.get_loop_order().get_ranks())))
        return fg


def c10_unit(args):
    import teaal.ir.flow_graph as fgmod
    spec = args["spec"]
    mode = args.get("mode", "plain")
    yaml_text = args.get("yaml") or specmod.to_yaml(spec)
    out = {"status": "ok", "layer1": [], "layer2": [], "sequences": [], "tiebreak_choices": 0}
    real_nx = fgmod.nx
    # layer 1: the order this interpreter's hash seed produces
    try:
        for i, g, order, lo in _flow_graphs(yaml_text, mode):
            probs = check_order(g, order, lo)
            out["sequences"].append(units.specmod_digest([repr(n) for n in order]))
            if probs:
                out["layer1"].append({"einsum": i, "problems": probs[:3]})
    except Exception as ex:
        tb = traceback.extract_tb(ex.__traceback__)
        where = ""
        for fr in reversed(tb):
            if "/teaal/" in fr.filename:
                where = "%s:%s" % (fr.filename.split("/teaal/")[-1], fr.name)
                break
        return {"status": "rejected", "reject": {"exc": type(ex).__name__, "msg": str(ex)[:300], "where": where}}
    status, text, info = units.compile_spec(yaml_text, mode)
    if status != "ok":
        return {"status": "rejected", "reject": info}
    out["text"] = text
    allowed = closed.allowed_names(spec)
    # layer 2: simulator-chosen tie-breaks
    inputs = args.get("inputs") or []
    for t in range(args.get("tiebreaks", 0)):
        rng = random.Random(args["tb_seed"] * 1000003 + t)
        # stream 0: newest-first, stream 1: oldest-first, then alternating random / early(target) / late(target)
        strategy = "lifo" if t == 0 else "fifo" if t == 1 else ("random", "early", "late")[t % 3]
        proxy = NxProxy(real_nx, rng, strategy)
        fgmod.nx = proxy
        try:
            rec = {"stream": t, "strategy": strategy}
            import teaal.trans.hifiber as hfmod
            recorder = _Recorder(hfmod.FlowGraph)
            hfmod.FlowGraph = recorder
            try:
                # one full translation under this tie-break; the flow graphs it built are checked as built
                st2, text2, info2 = units.compile_spec(yaml_text, mode)
                for i, (fg, lo) in enumerate(recorder.seen):
                    g, order = fg.get_graph(), fg.get_sorted()
                    probs = check_order(g, order, lo)
                    out["sequences"].append(units.specmod_digest([repr(n) for n in order]))
                    if probs:
                        rec.setdefault("order_problems", []).append({"einsum": i, "problems": probs[:3]})
            except Exception as ex:
                rec["exception"] = "%s: %s" % (type(ex).__name__, str(ex)[:200])
                st2 = None
            finally:
                hfmod.FlowGraph = recorder.real
            out["tiebreak_choices"] += proxy.choices
            if st2 == "rejected":
                rec["rejected_under_tiebreak"] = info2
            elif st2 == "ok":
                c = closed.analyse(text2, allowed)
                if not c["parse_ok"] or c["unbound"] or c["loop_leaks"]:
                    # an ORDER problem is a name read before the statement that binds it; a name no statement of
                    # the text binds at all is not a matter of statement order (e.g. the display code of a tensor
                    # stage that only this artificial order lets the canvas capture) and is only counted
                    bound_somewhere = _stored_names(text2) if c["parse_ok"] else set()
                    misordered = [u for u in c["unbound"] if u[0] in bound_somewhere]
                    if not c["parse_ok"] or misordered or c["loop_leaks"]:
                        c = dict(c, unbound=misordered or c["unbound"])
                        rec["not_closed"] = c
                        rec["text"] = text2
                    else:
                        out["never_bound_under_tiebreak"] = out.get("never_bound_under_tiebreak", 0) + 1
                elif inputs and mode == "plain" and text2 != text:
                    rep, ns, ctx = units.execute(text2, spec, inputs[0], mode)
                    if not units.run_ok(rep):
                        rec["exec"] = {k: rep.get(k) for k in ("exec", "error", "line")}
                        rec["outputs"] = {o: d["status"] for o, d in rep.get("outputs", {}).items()}
                        ref, _, _ = units.execute(text, spec, inputs[0], mode)
                        rec["reference_order_ok"] = units.run_ok(ref)
            if len(rec) > 2:
                rec["picks"] = proxy.picks[:400]
                out["layer2"].append(rec)
        finally:
            fgmod.nx = real_nx
    out["sequences"] = sorted(set(out["sequences"]))
    return out
