"""
Metrics-mode unit: compile a class-M specification with architecture/bindings/format,
execute it on the reference runtime with the recording stand-ins, and evaluate the
history / dictionary oracles (C11 twin, C12 history, C13 blocks, C14 roll-up).
"""
from gen import spec as specmod
from model import closed, metrics_oracle, rt
import units


def run_metrics(args):
    spec = args["spec"]
    yaml_text = args.get("yaml") or specmod.to_yaml(spec)
    status, text, info = units.compile_spec(yaml_text, "metrics")
    out = {"status": status}
    if status != "ok":
        out["reject"] = info
        return out
    out["text"] = text
    for i in range(args.get("recompile", 0)):
        s2, t2, _ = units.compile_spec(yaml_text, "metrics")
        if s2 != "ok" or t2 != text:
            out["recompile_differs"] = {"round": i + 1, "status": s2}
            break
    out["closed"] = closed.analyse(text, closed.allowed_names(spec))
    twin_spec = specmod.strip_hw(spec)
    tstatus, ttext, tinfo = units.compile_spec(specmod.to_yaml(twin_spec), "plain")
    out["twin_status"] = tstatus
    out["twin_reject"] = tinfo
    runs = []
    for inp in args.get("inputs", []):
        rep, ns, ctx = units.execute(text, spec, inp, "metrics")
        r = dict(rep)
        if rep["exec"] == "ok":
            # ---- C12
            r["history_problems"] = metrics_oracle.check_history(spec, ctx, require_fed=inp.get("style") == "dense")[:6]
            r["history_events"] = len(ctx.hist)
            r["reads_checked"] = sum(1 for ev in ctx.hist if ev[1] in ("filterTrace", "buffetTraffic", "cacheTraffic", "numIters"))
            r["sections"] = [[s["prefix"], s["first_iter"] is not None] for s in ctx.sections]
            r["intersectors_queried"] = len(ctx.queried_isects)
            r["consume_events"] = sum(1 for ev in ctx.hist if ev[1] == "consumeTrace")
            # ---- C13 / C14
            m = ns.get("metrics")
            if not isinstance(m, dict):
                r["metrics_problems"] = [{"kind": "no_metrics_dict"}]
            else:
                r["blocks"] = m.get("blocks")
                r["block_problems"] = metrics_oracle.check_blocks(spec, m.get("blocks"))[:6]
                probs = metrics_oracle.check_time(spec, m, ctx.handed)
                lost = [{"index": h["index"], "kind": h["kind"], "detail": rt._plain(h["detail"]), "landed": h["landed"]}
                        for h in ctx.handed if h.get("landed") != 1]
                r["counts_landing_elsewhere_than_once"] = len(lost)   # evidence only: two units bound to one op share a count
                r["time_problems"] = probs[:6]
                r["timed_components"] = sum(1 for e in m.values() if isinstance(e, dict)
                                            for d in e.values() if isinstance(d, dict) and "time" in d)
                r["handed"] = len(ctx.handed)
                r["time"] = str(m.get("time"))
                # boosted valuations: every handed-out count in turn dominates
                nb = 0
                if args.get("boost") and not probs:
                    for j in range(min(len(ctx.handed), args["boost"])):
                        rep_b, ns_b, ctx_b = units.execute(text, spec, inp, "metrics", values={"boost_index": j})
                        nb += 1
                        if rep_b["exec"] != "ok" or not isinstance(ns_b.get("metrics"), dict):
                            r["time_problems"] = [{"kind": "boosted_run_failed", "index": j, "error": rep_b.get("error")}]
                            break
                        pb = [p for p in metrics_oracle.check_time(spec, ns_b["metrics"], ctx_b.handed)]
                        if pb:
                            pb[0]["boosted_index"] = j
                            pb[0]["boosted"] = rt._plain(ctx_b.handed[j]["detail"])
                            r["time_problems"] = pb[:3]
                            break
                r["boosted_runs"] = nb
            # ---- C11 twin
            if tstatus == "ok":
                rep2, ns2, ctx2 = units.execute(ttext, twin_spec, inp, "plain")
                r["twin_exec"] = rep2["exec"]
                if rep2["exec"] == "ok":
                    common = sorted(set(rep["tensor_digest"]) & set(rep2["tensor_digest"]))
                    r["twin_common"] = len(common)
                    r["twin_diff"] = [n for n in common if rep["tensor_digest"][n] != rep2["tensor_digest"][n]][:5]
                    r["twin_outputs"] = {o: d["status"] for o, d in rep2["outputs"].items()}
                else:
                    r["twin_error"] = rep2.get("error")
        r.pop("tensor_digest", None) if False else None
        runs.append(r)
    out["runs"] = runs
    return out


def fusion_steps(args):
    """C13 history machine: feed the Einsums one at a time to real Program / Hardware / Fusion
    objects and check the blocks-so-far after EVERY step against the spec-side model."""
    import copy
    from teaal.parse import Einsum, Mapping, Architecture, Bindings
    from teaal.ir.program import Program
    from teaal.ir.hardware import Hardware
    from teaal.ir.fusion import Fusion
    spec = args["spec"]
    yaml_text = args.get("yaml") or specmod.to_yaml(spec)
    out = {"status": "ok", "steps": [], "problems": []}
    try:
        program = Program(Einsum.from_str(yaml_text), Mapping.from_str(yaml_text))
        hardware = Hardware(Architecture.from_str(yaml_text), Bindings.from_str(yaml_text), program)
        fusion = Fusion(hardware)
        n = len(spec["exprs"])
        for i in range(n):
            program.add_einsum(i)
            fusion.add_einsum(program)
            blocks = copy.deepcopy(fusion.get_blocks())
            program.reset()
            out["steps"].append(blocks)
            prefix_spec = dict(spec)
            prefix_spec["exprs"] = spec["exprs"][:i + 1]
            probs = metrics_oracle.check_blocks(prefix_spec, blocks)
            if probs:
                out["problems"].append({"after_step": i, "blocks": blocks, "problem": probs[0]})
                break
    except Exception as ex:
        import traceback
        tb = traceback.extract_tb(ex.__traceback__)
        where = ""
        for fr in reversed(tb):
            if "/teaal/" in fr.filename:
                where = "%s:%s" % (fr.filename.split("/teaal/")[-1], fr.name)
                break
        return {"status": "rejected", "reject": {"exc": type(ex).__name__, "msg": str(ex)[:300], "where": where}}
    out["text"] = repr(out["steps"][-1]) if out["steps"] else ""
    return out
