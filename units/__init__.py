"""
Unit functions executed inside forked children of the compile nodes.

run_spec is the work-horse: compile a specification with the real teaal code
under this interpreter's hash seed, analyse the text, execute it on the
reference runtime for each input set, compare with the dense model and audit
the final namespace.  It *reports*; verdicts are drawn by the checks.
"""
import re
import traceback

from gen import spec as specmod
from model import closed, dense, rt

TENSOR_VAR = re.compile(r"^[A-Z][A-Za-z0-9]*_[A-Za-z0-9]*$")


def compile_spec(yaml_text, mode):
    """-> (status, text | None, info).  status: ok | rejected"""
    from teaal.parse import Einsum, Mapping, Architecture, Bindings, Format
    from teaal.trans.hifiber import HiFiber
    try:
        e = Einsum.from_str(yaml_text)
        m = Mapping.from_str(yaml_text)
        if mode == "metrics":
            a = Architecture.from_str(yaml_text)
            b = Bindings.from_str(yaml_text)
            f = Format.from_str(yaml_text)
            text = str(HiFiber(e, m, a, b, f))
        else:
            text = str(HiFiber(e, m))
        return "ok", text, None
    except Exception as ex:  # the compiler said no: a rejection, classified by type
        tb = traceback.extract_tb(ex.__traceback__)
        where = ""
        for fr in reversed(tb):
            if "/teaal/" in fr.filename:
                where = "%s:%s" % (fr.filename.split("/teaal/")[-1], fr.name)
                break
        return "rejected", None, {"exc": type(ex).__name__, "msg": str(ex)[:300], "where": where}


def compile_shared(yaml_text, mode, n):
    """Parse once, compile n times from the same parsed objects. -> (status, [texts], info)"""
    from teaal.parse import Einsum, Mapping, Architecture, Bindings, Format
    from teaal.trans.hifiber import HiFiber
    texts = []
    try:
        objs = [Einsum.from_str(yaml_text), Mapping.from_str(yaml_text)]
        if mode == "metrics":
            objs += [Architecture.from_str(yaml_text), Bindings.from_str(yaml_text), Format.from_str(yaml_text)]
        for _ in range(n):
            texts.append(str(HiFiber(*objs)))
        return "ok", texts, None
    except Exception as ex:
        return "rejected", texts, {"exc": type(ex).__name__, "msg": str(ex)[:300], "compile": len(texts) + 1}


def input_var(spec, name):
    ro = spec.get("rank_order") or {}
    order = ro.get(name, spec["decl"][name])
    return name + "_" + "".join(order), list(order)


def make_namespace(spec, inp, mode, values=None):
    """Build the globals the user is expected to supply.  Returns (ns, ctx, supplied tensors)."""
    ctx = rt.reset(values)
    ns = dict(rt.data_api())
    if mode == "metrics":
        from model import standins
        ns.update(standins.api())
    ns.update(inp["extents"])
    ns.update(inp.get("params") or {})
    ns.update(inp.get("scalars") or {})
    supplied = {}
    decl = spec["decl"]
    for name, items in inp["tensors"].items():
        var, order = input_var(spec, name)
        perm = [decl[name].index(r) for r in order]
        coo = [(tuple(cs[i] for i in perm), v) for cs, v in items]
        t = rt.make_tensor(name, order, coo)
        ns[var] = t
        supplied[var] = t
    return ns, ctx, supplied


def _dump_json(d):
    ids, items = d
    return [ids, [[_jc(cs), v] for cs, v in items]]


def _jc(cs):
    return [list(c) if isinstance(c, tuple) else c for c in cs]


def execute(text, spec, inp, mode, values=None, cf=None):
    """Execute text for one input set; returns a report dict (JSON-able).
    cf: list of counterfactual rewrite names applied to the text first."""
    ns, ctx, supplied = make_namespace(spec, inp, mode, values)
    before = {var: rt.tensor_dump(t) for var, t in supplied.items()}
    before_stored = {var: sorted(t.coo(), key=repr) for var, t in supplied.items()}
    rep = {"exec": "ok"}
    try:
        if cf:
            from model import counterfactual
            code, counts = counterfactual.rewrite(text, cf)
            rep["cf_sites"] = counts
            ns.update(counterfactual.extra_globals())
        else:
            code = compile(text, "<hifiber>", "exec")
    except SyntaxError as e:
        rep["exec"] = "syntax_error"
        rep["error"] = "%s line %s" % (e.msg, e.lineno)
        return rep, ns, ctx
    try:
        exec(code, ns)
    except rt.RtError as e:
        rep["exec"] = "rt_error"
        rep["error"] = str(e)[:300]
        return rep, ns, ctx
    except Exception as e:
        tb = traceback.extract_tb(e.__traceback__)
        line = None
        for fr in tb:
            if fr.filename in ("<hifiber>", "<hifiber-cf>"):
                line = fr.lineno
        rep["exec"] = "exception"
        rep["error"] = "%s: %s" % (type(e).__name__, str(e)[:300])
        rep["line"] = line
        rep["in_rt"] = tb[-1].filename.endswith(("rt.py", "standins.py"))
        return rep, ns, ctx

    # ---- dense model
    decl = spec["decl"]
    inputs = {n: {tuple(cs): v for cs, v in items} for n, items in inp["tensors"].items()}
    want = dense.eval_cascade(spec["exprs"], decl, inp["extents"], inputs, inp.get("scalars") or {})
    outs = [dense.output_name(e) for e in spec["exprs"]]
    res = {}
    for oname in outs:
        var, order = input_var(spec, oname)
        r = {"var": var}
        t = ns.get(var)
        if not isinstance(t, rt.Tensor):
            r["status"] = "missing"
            res[oname] = r
            continue
        ids, items = rt.tensor_dump(t)
        r["rank_ids"] = ids
        perm = [order.index(x) for x in decl[oname]]
        try:
            got = {tuple(cs[i] for i in perm): v for cs, v in items}
        except IndexError:
            r["status"] = "bad_arity"
            res[oname] = r
            continue
        exp = want[oname]
        r["nnz"] = len(exp)
        oshape = [inp["extents"][x] for x in decl[oname]]
        oob = [list(map(_jv, cs)) for cs in got
               if not all(isinstance(c, int) and 0 <= c < s for c, s in zip(cs, oshape))]
        r["out_of_extent"] = oob[:5]
        if ids != order:
            r["status"] = "bad_rank_ids"
        elif got != exp:
            r["status"] = "mismatch"
            miss = sorted(k for k in exp if k not in got)[:4]
            extra = sorted((k for k in got if k not in exp), key=repr)[:4]
            diff = sorted(k for k in exp if k in got and got[k] != exp[k])[:4]
            r["detail"] = {"missing": [[list(k), exp[k]] for k in miss],
                           "extra": [[list(map(_jv, k)), got[k]] for k in extra],
                           "different": [[list(k), got[k], exp[k]] for k in diff]}
        else:
            r["status"] = "ok"
        res[oname] = r
    rep["outputs"] = res

    # ---- namespace audit (C07)
    audit = []
    dumps = {}
    for var in sorted(ns):
        v = ns[var]
        if isinstance(v, rt.Tensor) and TENSOR_VAR.match(var):
            suffix = var.split("_", 1)[1]
            if suffix.endswith("_flat"):
                suffix = suffix[:-5]
            ids = v.getRankIds()
            if "".join(ids) != suffix:
                audit.append({"var": var, "rank_ids": ids})
            dumps[var] = rt.tensor_dump(v)
    rep["bad_names"] = audit
    changed = []
    for var, t in supplied.items():
        if rt.tensor_dump(t) != before[var] or sorted(t.coo(), key=repr) != before_stored[var]:
            changed.append({"var": var, "what": "object"})
        cur = ns.get(var)
        if cur is not t:
            if not isinstance(cur, rt.Tensor) or rt.tensor_dump(cur) != before[var]:
                changed.append({"var": var, "what": "rebound"})
    rep["inputs_changed"] = changed
    rep["tensor_digest"] = {var: specmod_digest(_dump_json(d)) for var, d in dumps.items()}
    rep["probes"] = dict(ctx.probes)
    rep["updates"] = ctx.updates
    # explicit shapes: entry i must be the extent of the root rank of rank id i
    bad_shapes = []
    for ids, shape, name in ctx.explicit_shapes:
        want = []
        for r in ids:
            root = r.rstrip("0123456789")
            want.append(inp["extents"].get(root))
        if len(shape) != len(ids) or any(w is not None and w != s_ for w, s_ in zip(want, shape)):
            bad_shapes.append({"tensor": name, "rank_ids": ids, "shape": shape, "expected": want})
    rep["bad_shapes"] = bad_shapes[:3]
    return rep, ns, ctx


def _jv(c):
    if isinstance(c, tuple):
        return [_jv(x) for x in c]
    if isinstance(c, (int, str)):
        return c
    return repr(c)


def specmod_digest(obj):
    import hashlib
    import json
    return hashlib.sha256(json.dumps(obj, sort_keys=True, default=repr).encode()).hexdigest()[:16]


def run_spec(args):
    spec = args["spec"]
    mode = args.get("mode", "plain")
    yaml_text = args.get("yaml") or specmod.to_yaml(spec)
    status, text, info = compile_spec(yaml_text, mode)
    out = {"status": status}
    if status != "ok":
        out["reject"] = info
        return out
    out["text"] = text
    for i in range(args.get("recompile", 0)):
        s2, t2, _ = compile_spec(yaml_text, mode)
        if s2 != "ok" or t2 != text:
            out["recompile_differs"] = {"round": i + 1, "status": s2, "text": t2}
            break
    if args.get("recompile") and "recompile_differs" not in out:
        # and twice from ONE set of parsed objects ("compiling the same specification twice" in a notebook)
        st3, texts3, info3 = compile_shared(yaml_text, mode, 2)
        if st3 != "ok" or any(t != text for t in texts3):
            out["recompile_differs"] = {"round": "shared-objects", "status": st3, "text": None,
                                        "which": [i for i, t in enumerate(texts3) if t != text], "reject": info3}
    out["closed"] = closed.analyse(text, closed.allowed_names(spec))
    runs = []
    for inp in args.get("inputs", []):
        rep, ns, ctx = execute(text, spec, inp, mode)
        if args.get("canvas"):
            rep["canvas"] = canvas_report(ctx, ns)
        if args.get("counterfactuals") and not run_ok(rep):
            rep["cf"] = {}
            for names in args["counterfactuals"]:
                r2, _, _ = execute(text, spec, inp, mode, cf=names)
                rep["cf"]["+".join(names)] = {"ok": run_ok(r2), "sites": r2.get("cf_sites")}
        runs.append(rep)
    out["runs"] = runs
    return out


def run_ok(rep):
    return rep["exec"] == "ok" and all(o["status"] == "ok" and not o["out_of_extent"]
                                       for o in rep["outputs"].values())


def canvas_report(ctx, ns):
    out = []
    for c in ctx.canvases:
        out.append({"names": c.names, "ranks": c.ranks_at_creation, "displayed": c.displayed,
                    "updates_at_creation": c.updates_at_creation, "updates_at_display": c.updates_at_display,
                    "n_acts": len(c.acts), "acts": c.acts[:400], "total_updates": ctx.updates})
    return out


def ping(args):
    import os
    import sys
    return {"hashseed": os.environ.get("PYTHONHASHSEED"), "hash_a": hash("a"), "echo": args,
            "flags": sys.flags.hash_randomization}


def timed(args):
    import time
    import os
    import resource
    t0 = time.time()
    c0 = os.times()
    f0 = resource.getrusage(resource.RUSAGE_SELF).ru_minflt
    r = run_spec(args)
    c1 = os.times()
    f1 = resource.getrusage(resource.RUSAGE_SELF).ru_minflt
    return {"t": round(time.time() - t0, 3), "user": round(c1.user - c0.user, 3), "sys": round(c1.system - c0.system, 3), "minflt": f1 - f0}


def compile_many(args):
    """Compile several YAML variants (fresh parse each) in this interpreter.
    -> {"status": "ok", "variants": {name: {status, text|reject}}} (status key so the
    generic machinery can treat it like run_spec)"""
    out = {}
    for name, y in args["variants"].items():
        status, text, info = compile_spec(y, args.get("mode", "plain"))
        out[name] = {"status": status, "text": text, "reject": info}
    return {"status": "ok", "variants": out, "text": out.get(args.get("main", ""), {}).get("text")}


def _ntmp(text):
    ns = [int(m) for m in re.findall(r"\btmp(\d+)\b", text)]
    return max(ns) + 1 if ns else 0


def _shift_tmps(text, t):
    return re.sub(r"\btmp(\d+)\b", lambda m: "tmp%d" % (int(m.group(1)) + t), text)


def c05_unit(args):
    """History experiment for C05: every subsequence of the cascade's Einsums is compiled
    (fresh parse each) on this node; the text of X = S + [E] must be text(S) followed by the
    stand-alone text of E with its temporaries shifted by the number text(S) uses."""
    import itertools
    spec = args["spec"]
    n = len(spec["exprs"])
    texts = {}
    rejects = {}
    for r in range(1, n + 1):
        for idx in itertools.combinations(range(n), r):
            s = dict(spec)
            s["exprs"] = [spec["exprs"][i] for i in idx]
            status, text, info = compile_spec(specmod.to_yaml(s), "plain")
            if status == "ok":
                texts[idx] = text
            else:
                rejects[idx] = info
    out = {"status": "ok" if tuple(range(n)) in texts else "rejected", "n": n, "compiles": len(texts) + len(rejects),
           "reject": rejects.get(tuple(range(n))), "mismatches": [], "subseq_rejected": [[list(k), v] for k, v in rejects.items()][:5]}
    if out["status"] != "ok":
        return out
    full = texts[tuple(range(n))]
    out["text"] = full
    for idx, text in sorted(texts.items()):
        if len(idx) == 1:
            continue
        prefix, last = idx[:-1], idx[-1:]
        if prefix not in texts or last not in texts:
            continue
        want = texts[prefix] + "\n" + _shift_tmps(texts[last], _ntmp(texts[prefix]))
        if text != want:
            a, b = text.split("\n"), want.split("\n")
            i = next((j for j in range(min(len(a), len(b))) if a[j] != b[j]), min(len(a), len(b)))
            out["mismatches"].append({"subsequence": list(idx), "first_diff_line": i + 1,
                                      "in_cascade": a[i] if i < len(a) else None,
                                      "expected_from_standalone": b[i] if i < len(b) else None})
    out["closed"] = closed.analyse(full, closed.allowed_names(spec))
    runs = []
    for inp in args.get("inputs", []):
        rep, ns, ctx = execute(full, spec, inp, "plain")
        runs.append(rep)
    out["runs"] = runs
    return out
