"""C08 - emission-order nondeterminism is benign (the core replica experiment)."""
from checks import common
from checks.c06 import REJ
from gen import classes
import units


class C08(common.SpecCheck):
    pid = "C08"
    title = "Emission-order nondeterminism is benign"
    QUICK = {"nseeds": 8, "specs": 250, "round": 250, "budget": 0}
    rule = ("N compile nodes that differ only in interpreter hash seed compile the same partitioned specification "
            "(classes S, O, A-partitioned, K, T; metrics specs are covered by C11's replicas) in lock step. Invariants: "
            "(a) inside each node, parse-and-compile twice more, and compile twice from ONE set of parsed objects -> byte-identical text; (b) every distinct text is closed; "
            "(c) all texts executed on identical inputs leave identical tensors under the final name <Name>_<declared-or-"
            "rank-order ranks> of every declared tensor (inputs, intermediates, outputs), equal to the dense model; (d) a compile that succeeds under one seed "
            "succeeds under all. distinct = distinct (spec, text); non-trivial = the spec produced >= 2 distinct texts "
            "across the seed pool (measure of interleavings reached: histogram of distinct texts per spec)")
    assumptions = ["hash seeds are sampled (8 quick / 32 thorough of 2^32)",
                   "reference runtime is hash-seed independent (lists, ints, explicit sorted() only; self-tested)"]

    def gen(self, rng, k):
        spec, meta = classes.gen_mixed(rng, [("S", 4), ("O", 4), ("A", 2), ("K", 3), ("T", 2), ("O2", 2)])
        return spec, meta

    def unit_args(self, spec, meta, inputs):
        a = super().unit_args(spec, meta, inputs)
        a["recompile"] = 2
        if common.is_affine(meta):
            a["counterfactuals"] = common.AFFINE_CF
        return a

    def nontrivial(self, spec, meta):
        return False   # decided per spec in judge/observe (needs the texts)

    def judge(self, spec, meta, inputs, results):
        vs = common.rejection_violations(results, must_accept=False)
        oks = {h: r for h, r in results.items() if r["status"] == "ok"}
        for h, r in sorted(oks.items()):
            if "recompile_differs" in r:
                vs.append(common.Violation("recompile_differs_in_process", [h], {"round": r["recompile_differs"]["round"],
                                                                                 "status": r["recompile_differs"]["status"]}))
                return vs
        vs += common.closed_violations(oks)
        if vs:
            return vs
        # (c) replicas agree
        by_text = {}
        for h, r in sorted(oks.items()):
            by_text.setdefault(r["text"], h)
        reps = sorted(by_text.values())
        ref_h = reps[0] if reps else None
        for h in reps:
            r = oks[h]
            for i, run in enumerate(r["runs"]):
                ref = oks[ref_h]["runs"][i]
                if run["exec"] != ref["exec"]:
                    vs.append(common.Violation("replicas_diverge_exec", [ref_h, h], {"input_set": i, "a": ref["exec"], "b": run["exec"],
                                                                                      "err": run.get("error") or ref.get("error")}))
                    return vs
                if run["exec"] != "ok":
                    # same failure on every replica: not an order effect (reported by C02-C06)
                    continue
                # the tensors a program computes are the declared ones under their final names; partitioned /
                # swizzled stages are temporaries whose names are legitimately re-used by later Einsums with other
                # partition sizes, so which stage a stale name still denotes depends on the emission order
                finals = {units.input_var(spec, t)[0] for t in spec["decl"]}
                common_names = sorted(set(run["tensor_digest"]) & set(ref["tensor_digest"]) & finals)
                diff = [n for n in common_names if run["tensor_digest"][n] != ref["tensor_digest"][n]]
                if diff:
                    vs.append(common.Violation("replicas_diverge_tensors", [ref_h, h], {"input_set": i, "vars": diff[:5]}))
                    return vs
                so = {o: d["status"] for o, d in run["outputs"].items()}
                ro = {o: d["status"] for o, d in ref["outputs"].items()}
                if so != ro:
                    vs.append(common.Violation("replicas_diverge_outputs", [ref_h, h], {"input_set": i, "a": ro, "b": so}))
                    return vs
        # equal to the dense model (on the representative; the others agree with it)
        if ref_h is not None:
            vs += common.exec_violations({ref_h: oks[ref_h]})
        return vs

    def attribute(self, spec, meta, inputs, results, v):
        if common.is_affine(meta):
            return common.attribute_affine(results, v)
        return None

    def observe(self, spec, meta, results, stats):
        stats.add("class:" + meta["class"])
        texts = {r["text"] for r in results.values() if r["status"] == "ok"}
        if len(texts) >= 2:
            stats.add("specs_with_several_texts")
            self._nontrivial = getattr(self, "_nontrivial", 0) + len(texts)
        stats.add("recompiles_in_process", 4 * len(results))

    def extend_evidence(self, ev):
        ev["coverage"]["distinct_nontrivial"] = getattr(self, "_nontrivial", 0)


CHECK = C08

if __name__ == "__main__":
    common.main_for(C08)
