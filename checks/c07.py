"""C07 - tensor variable names tell the truth and inputs are never modified."""
from checks import common
from checks.c06 import REJ
from gen import classes


class C07(common.SpecCheck):
    pid = "C07"
    title = "Tensor variable names tell the truth and inputs are never modified"
    QUICK = {"nseeds": 8, "specs": 300, "round": 300, "budget": 0}
    rule = ("mixture of classes S, O, A, K, P x hash-seed pool (rename / setRankIds / swizzle sequences differ between "
            "emission orders); after each execution on the reference runtime: every global named <Name>_<Ranks> that "
            "holds a tensor has rank ids spelling <Ranks>; each Einsum's result is bound to <Output>_<declared-or-rank-"
            "order ranks> and equals the dense model in original coordinates; every user-supplied input tensor object "
            "is deep-equal to its pre-run snapshot (rank ids, stored content) and its name still denotes the same data. "
            "distinct = distinct (spec, text); non-trivial = partitioned or a rank-order is given")
    assumptions = ["reference runtime: setRankIds mutates in place, swizzleRanks/split*/flatten*/merge* return new tensors, "
                   "fromFiber shares the fiber (DESIGN 4.2)"]

    def gen(self, rng, k):
        return classes.gen_mixed(rng, [("S", 4), ("O", 4), ("A", 2), ("K", 4), ("P", 2), ("O2", 1)])

    def nontrivial(self, spec, meta):
        return bool(meta.get("npart")) or bool(spec.get("rank_order"))

    def judge(self, spec, meta, inputs, results):
        vs = common.rejection_violations(results, must_accept=True, allowed=REJ)
        for h, r in sorted(results.items()):
            if r["status"] != "ok" or vs:
                continue
            for i, run in enumerate(r["runs"]):
                if run["exec"] == "rt_error" and "setRankIds" in run.get("error", ""):
                    # the program tries to give a tensor rank ids that do not fit its ranks
                    vs.append(common.Violation("rank_ids_do_not_fit_tensor", [h], {"input_set": i, "error": run["error"]}))
                    break
                if run["exec"] != "ok":
                    continue   # not C07's business (C02-C05 report it)
                if run["bad_names"]:
                    vs.append(common.Violation("name_lies_about_ranks", [h], {"input_set": i, "vars": run["bad_names"][:4]}))
                    break
                if run["inputs_changed"]:
                    vs.append(common.Violation("input_modified", [h], {"input_set": i, "vars": run["inputs_changed"][:4]}))
                    break
                bad = {o: d for o, d in run["outputs"].items() if d["status"] in ("missing", "bad_rank_ids", "bad_arity")}
                if bad:
                    o = sorted(bad)[0]
                    vs.append(common.Violation("result_binding_" + bad[o]["status"], [h], {"input_set": i, "output": o, "info": bad[o]}))
                    break
                oob = {o: d["out_of_extent"] for o, d in run["outputs"].items() if d["out_of_extent"]}
                if oob:
                    o = sorted(oob)[0]
                    vs.append(common.Violation("result_not_in_original_coordinates", [h], {"input_set": i, "output": o, "coords": oob[o]}))
                    break
        return vs

    def attribute(self, spec, meta, inputs, results, v):
        # out-of-extent coordinates of class-A specs are C04's known finding K2 (attributed there by counterfactual)
        if v.vclass == "result_not_in_original_coordinates" and common.is_affine(meta):
            run = results[v.hseeds[0]]["runs"][v.detail["input_set"]]
            cf = (run.get("cf") or {})
            for name in ("K2", "K1+K2"):
                if cf.get(name, {}).get("ok"):
                    return "C04-K2"
        return None

    def unit_args(self, spec, meta, inputs):
        a = super().unit_args(spec, meta, inputs)
        if common.is_affine(meta):
            a["counterfactuals"] = [["K2"], ["K1", "K2"]]
        return a

    def observe(self, spec, meta, results, stats):
        stats.add("class:" + meta["class"])
        for r in results.values():
            if r["status"] == "ok":
                for run in r["runs"]:
                    if run["exec"] == "ok":
                        stats.add("tensor_vars_audited", len(run["tensor_digest"]))
                        stats.merge_probes(run["probes"])
                break


CHECK = C07

if __name__ == "__main__":
    common.main_for(C07)
