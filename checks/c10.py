"""C10 - statement order respects every data and control dependence."""
from checks import common
from checks.c06 import REJ
from gen import classes


class C10(common.SpecCheck):
    pid = "C10"
    title = "Statement order respects every data and control dependence"
    unit_fn = "units.c10:c10_unit"
    QUICK = {"nseeds": 8, "specs": 320, "round": 320, "budget": 0}
    # a thorough unit is 49 translations: rounds are kept small so that the time budget is checked often enough for
    # the command's own timeout (a round of the default 600 specs x 32 seeds would run for more than an hour)
    THOROUGH = {"nseeds": 32, "specs": 0, "round": 40, "budget": 1200}
    TIEBREAKS = {"quick": 8, "thorough": 48}
    rule = ("specs of all classes (S, O, A, A+ (two projected tensors, occupancy split of an index-math rank), K, T in plain mode, M and Mp (partitioned, "
            "with mergers) in metrics mode) driven through the public IR "
            "API (Program.add_einsum, FlowGraph(program, metrics, ['hoist']), get_graph, get_sorted). Layer 1: the order "
            "each real hash seed produces. Layer 2 (fault/schedule seam): teaal.ir.flow_graph.nx is replaced, in the unit "
            "only, by a proxy whose topological_sort is Kahn's algorithm picking among ready nodes with the unit's PRNG "
            "(8 quick / 48 thorough linear extensions per (spec, seed): newest-first, oldest-first, uniformly random, and "
            "targeted ones that schedule one PRNG-chosen node as early / as late as its recorded dependences allow). Invariants: sorted is a permutation of the "
            "graph's nodes; every edge (u,v) has pos(u) < pos(v); Loop/EndLoop well nested in loop order, Body innermost, "
            "Footer outside; nothing before Loop(r) is a descendant of Loop(r). Because a lost edge would pass vacuously, "
            "the full translation also runs under each tie-break: no name may be read before the statement that binds it "
            "(a name that no statement of the text binds is not an ordering matter and is only counted) and (plain mode) the "
            "text must still compute the dense model. distinct = distinct post-hoist node sequences; non-trivial = every such sequence")
    assumptions = ["tie-breaks form a superset of what real seeds reach; all of them are legal linear extensions of the "
                   "compiler's own graph"]

    def gen(self, rng, k):
        spec, meta = classes.gen_mixed(rng, [("S", 3), ("O", 8), ("Os", 3), ("A", 2), ("A+", 2), ("K", 2), ("T", 2), ("M", 3), ("Mp", 2)])
        return spec, meta

    def inputs(self, rng, spec, meta):
        ins = super().inputs(rng, spec, meta)
        return ins[:1]

    def unit_args(self, spec, meta, inputs):
        a = super().unit_args(spec, meta, inputs)
        a["tiebreaks"] = self.TIEBREAKS[getattr(self, "_tier", "quick")]
        a["tb_seed"] = getattr(self, "_seed", 0) % 1000000
        return a

    def run(self, argv):
        self._tier, self._seed = common.tier_and_seed(argv)
        self._seqs = set()
        return super().run(argv)

    def nontrivial(self, spec, meta):
        return False

    def judge(self, spec, meta, inputs, results):
        vs = common.rejection_violations(results, must_accept=meta.get("class") not in ("M", "Mp", "A+"), allowed=REJ)
        for h, r in sorted(results.items()):
            if r["status"] != "ok" or vs:
                continue
            if r["layer1"]:
                vs.append(common.Violation("order_violates_dependence", [h], r["layer1"][0]))
                break
            for rec in r["layer2"]:
                if "order_problems" in rec:
                    vs.append(common.Violation("order_violates_dependence_under_tiebreak", [h],
                                               {"stream": rec["stream"], "problem": rec["order_problems"][0]}))
                elif "not_closed" in rec:
                    c = rec["not_closed"]
                    vs.append(common.Violation("use_before_def_under_tiebreak", [h],
                                               {"stream": rec["stream"], "unbound": c["unbound"][:4], "loop_leaks": c["loop_leaks"][:4],
                                                "parse_ok": c["parse_ok"]}))
                elif "exception" in rec or "rejected_under_tiebreak" in rec:
                    vs.append(common.Violation("translation_fails_under_tiebreak", [h],
                                               {"stream": rec["stream"], "error": rec.get("exception") or rec.get("rejected_under_tiebreak")}))
                elif "exec" in rec and rec.get("reference_order_ok"):
                    vs.append(common.Violation("wrong_result_under_tiebreak", [h],
                                               {"stream": rec["stream"], "exec": rec["exec"], "outputs": rec["outputs"]}))
                if vs:
                    break
        return vs

    def observe(self, spec, meta, results, stats):
        stats.add("class:" + meta["class"])
        for r in results.values():
            if r["status"] == "ok":
                stats.add("tiebreak_choices", r["tiebreak_choices"])
                if r.get("never_bound_under_tiebreak"):
                    stats.add("texts_with_a_never_bound_name_under_an_artificial_order(not an order problem)", r["never_bound_under_tiebreak"])
                for s in r["sequences"]:
                    self._seqs.add((common.orch.sha(common.specmod.to_yaml(spec)), s))

    def log_view(self, result):
        return {k: v for k, v in result.items() if k != "text"}

    def extend_evidence(self, ev):
        ev["coverage"]["distinct_nontrivial"] = len(self._seqs)
        ev["coverage"]["fault_kinds"] = {"tie_break_choice_points_taken_by_the_simulator": ev["coverage"]["counters"].get("tiebreak_choices", 0)}


CHECK = C10

if __name__ == "__main__":
    common.main_for(C10)
