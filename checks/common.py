"""
Shared machinery of the per-property checks: tiers, the round loop over
(spec x hash seed) units, violation handling (known-finding attribution,
minimisation, replay file, replay verification), evidence writing, exit codes.

Exit codes: 0 = property held on everything explored; 1 = VIOLATION (line on
stdout); 2 = harness error (never a VIOLATION line, never exit 0).
"""
import json
import os
import random
import sys
import time
import traceback

VERIF = os.path.dirname(os.path.dirname(os.path.abspath(__file__)))
if VERIF not in sys.path:
    sys.path.insert(0, VERIF)

from sim import orch  # noqa: E402
from gen import spec as specmod  # noqa: E402
from gen import classes  # noqa: E402

EVIDENCE_DIR = os.path.join(VERIF, "evidence")
REPLAY_DIR = os.path.join(VERIF, "replays")
KNOWN_FILE = os.path.join(VERIF, "known_findings.txt")


def ensure_fixed_hashseed():
    """The orchestrator itself runs under PYTHONHASHSEED=0 (it never depends on it, but
    this removes the question)."""
    if os.environ.get("PYTHONHASHSEED") != "0":
        env = dict(os.environ)
        env["PYTHONHASHSEED"] = "0"
        os.execve(sys.executable, [sys.executable] + sys.argv, env)


def ensure_fixed_hashseed_argv(argv):
    if os.environ.get("PYTHONHASHSEED") != "0":
        env = dict(os.environ)
        env["PYTHONHASHSEED"] = "0"
        os.execve(sys.executable, [sys.executable] + argv, env)


def tier_and_seed(argv):
    tier = os.environ.get("VERIF_TIER", "quick")
    for i, a in enumerate(argv):
        if a == "--tier" and i + 1 < len(argv):
            tier = argv[i + 1]
    if tier not in ("quick", "thorough"):
        tier = "quick"
    seed = int(os.environ.get("VERIF_SEED", "20260923"))
    return tier, seed


class Violation:
    def __init__(self, vclass, hseeds, detail, key=None):
        self.vclass = vclass
        self.hseeds = list(hseeds)
        self.detail = detail
        self.key = key


class Stats:
    def __init__(self):
        self.c = {}

    def add(self, name, n=1):
        self.c[name] = self.c.get(name, 0) + n

    def merge_probes(self, probes):
        for k, v in probes.items():
            self.add("probe:" + k, 1 if v else 0)


def load_known():
    """known_findings.txt: lines 'known: property=<id> id=<KF> :: <what fails>' and
    'fixed: property=<id> <commit> <what failed>'.  Read-only at run time."""
    known, fixed = [], []
    if os.path.exists(KNOWN_FILE):
        for line in open(KNOWN_FILE):
            line = line.strip()
            if line.startswith("known:"):
                head, _, what = line[6:].partition("::")
                kv = dict(x.split("=", 1) for x in head.split() if "=" in x)
                kv["what"] = what.strip()
                kv["properties"] = kv.get("property", "").split(",")
                known.append(kv)
            elif line.startswith("fixed:"):
                fixed.append(line)
    return known, fixed


class SpecCheck:
    """A check whose units are (spec, hash seed) pairs judged per spec across seeds."""
    pid = "C00"
    title = ""
    level = "exploration"
    unit_fn = "units:run_spec"
    QUICK = {"nseeds": 8, "specs": 400, "round": 400, "budget": 0}
    THOROUGH = {"nseeds": 32, "specs": 0, "round": 600, "budget": 1200}
    rule = ""
    assumptions = []
    stubs = ["fibertree -> /verif/model/rt.py reference runtime"]
    real = ["teaal (all of it, from TEAAL_REPO working tree)", "lark", "sympy", "networkx", "ruamel.yaml",
            "CPython hash randomisation (PYTHONHASHSEED per node)", "CPython executing the emitted text"]

    unit_timeout = 120
    fresh = False          # True: every unit runs in its own pristine child of a template node
    templates = 0

    def case_text(self, spec):
        return specmod.to_yaml(spec)

    # ---- to override -------------------------------------------------
    def gen(self, rng, k):
        raise NotImplementedError

    def inputs(self, rng, spec, meta):
        ins = classes.input_sets(rng, spec, meta.get("syms", {}), meta.get("extents"))
        for inp in ins:
            for k, v in (meta.get("extra_params") or {}).items():
                inp["params"].setdefault(k, v)
        return ins

    def unit_args(self, spec, meta, inputs):
        return {"spec": spec, "yaml": specmod.to_yaml(spec), "mode": meta.get("mode", "plain"), "inputs": inputs}

    def judge(self, spec, meta, inputs, results):
        """results: {hseed: run_spec result}; -> list[Violation]"""
        raise NotImplementedError

    def nontrivial(self, spec, meta):
        return True

    def observe(self, spec, meta, results, stats):
        pass

    def witnesses(self):
        """[(finding id, description, callable(cluster) -> still_fails bool)]: the fixed witness
        units of the known findings listed for this property (witnesses/*.json)."""
        import glob
        out = []
        for path in sorted(glob.glob(os.path.join(VERIF, "witnesses", "*.json"))):
            doc = json.load(open(path))
            if self.pid not in doc["properties"]:
                continue
            out.append((doc["id"], doc["what"], lambda cl, doc=doc: self.witness_fails(doc, cl)))
        return out

    def witness_fails(self, doc, cluster):
        case = (doc["spec"], doc["meta"], doc["inputs"])
        h = doc["hash_seeds"][0]
        if h not in cluster.workers:
            h = cluster.hseeds[0]
        res = cluster.run(self.units_for(0, case, [h]), fresh=self.fresh, batch=1)
        r = res["0/%d" % h]
        if "harness_error" in r:
            raise orch.HarnessError("witness %s: %s" % (doc["id"], r["harness_error"][-500:]))
        per_seed = {h: r["ok"]}
        for v in self.judge(case[0], case[1], case[2], per_seed):
            if self.attribute(case[0], case[1], case[2], per_seed, v) in (None, doc["id"]):
                return True
        return False

    def attribute(self, spec, meta, inputs, results, violation):
        """-> known finding id or None"""
        return None

    def finding_listed(self, kfid):
        """Is every part of this finding id recorded in known_findings.txt for this property?"""
        known, _ = load_known()
        parts = kfid.replace("C04-K1+K2", "C04-K1 C04-K2").split()
        return all(any(e.get("id") == p_ and self.pid in e["properties"] for e in known) for p_ in parts)

    def shrink_candidates(self, spec, meta, inputs):
        from gen import shrink
        return shrink.candidates(spec, meta, inputs)

    # ---- machinery -----------------------------------------------------
    def make_case(self, verif_seed, k):
        rng = random.Random(orch.sub_seed(verif_seed, self.pid, "spec", k))
        try:
            g = self.gen(rng, k)
            if g is None:
                return None
            spec, meta = g
            inputs = self.inputs(rng, spec, meta)
        except classes.AmbiguousNames:
            return None
        return spec, meta, inputs

    def units_for(self, k, case, hseeds):
        spec, meta, inputs = case
        args = self.unit_args(spec, meta, inputs)
        return [{"uid": "%d/%d" % (k, h), "hseed": h, "fn": self.unit_fn, "args": args, "timeout": self.unit_timeout}
                for h in hseeds]

    def run(self, argv):
        tier, seed = tier_and_seed(argv)
        cfg = dict(self.THOROUGH if tier == "thorough" else self.QUICK)
        if os.environ.get("VERIF_BUDGET_S"):
            cfg["budget"] = int(os.environ["VERIF_BUDGET_S"])
        if os.environ.get("VERIF_SPECS"):
            cfg["specs"] = int(os.environ["VERIF_SPECS"])
            cfg["budget"] = 0
        t0 = time.time()
        print("SEED property=%s tier=%s VERIF_SEED=%d repo=%s code=%s" % (
            self.pid, tier, seed, orch.repo_path(), orch.code_digest()), flush=True)
        hseeds = orch.seed_pool(seed, cfg["nseeds"])
        stats = Stats()
        violations = []     # (k, case, Violation)
        known_hits = {}
        harness_errors = []
        texts_per_spec = {}
        nontrivial_keys = set()
        samples = []
        evals = 0
        n_specs = 0
        rc = 0
        import hashlib
        log = hashlib.sha256()
        try:
            with orch.Cluster(hseeds, templates=self.templates,
                              per_seed=(1 if self.fresh else None)) as cluster:
                self.cluster = cluster
                k0 = 0
                while True:
                    if cfg["budget"]:
                        if time.time() - t0 > cfg["budget"] and k0 > 0:
                            break
                        ks = range(k0, k0 + cfg["round"])
                    else:
                        if k0 >= cfg["specs"]:
                            break
                        ks = range(k0, min(cfg["specs"], k0 + cfg["round"]))
                    k0 = ks[-1] + 1
                    cases = {}
                    units = []
                    for k in ks:
                        case = self.make_case(seed, k)
                        if case is None:
                            stats.add("generator_skipped")
                            continue
                        cases[k] = case
                        units.extend(self.units_for(k, case, hseeds))
                    res = cluster.run(units, fresh=self.fresh, batch=1)
                    evals += len(units)
                    for k, case in sorted(cases.items()):
                        spec, meta, inputs = case
                        n_specs += 1
                        per_seed = {}
                        for h in hseeds:
                            r = res["%d/%d" % (k, h)]
                            if "harness_error" in r:
                                harness_errors.append((k, h, r["harness_error"]))
                            else:
                                per_seed[h] = r["ok"]
                        if len(per_seed) < len(hseeds):
                            continue
                        for h in hseeds:
                            log.update(("%d/%d:" % (k, h)).encode())
                            log.update(json.dumps(self.log_view(per_seed[h]), sort_keys=True, default=str).encode())
                        texts = sorted({r.get("text") for r in per_seed.values() if r.get("text")})
                        texts_per_spec[k] = len(texts)
                        stats.add("texts_per_spec=%d" % len(texts))
                        for r in per_seed.values():
                            if r["status"] != "ok":
                                stats.add("rejected:%s" % (r.get("reject") or {}).get("exc", r["status"]))
                        if self.nontrivial(spec, meta):
                            for t in texts:
                                nontrivial_keys.add((orch.sha(self.case_text(spec)), orch.sha(t)))
                        self.observe(spec, meta, per_seed, stats)
                        if len(samples) < 3 and not texts and self.fresh:
                            samples.append({"k": k, "case": self.case_text(spec), "hash_seeds": hseeds[:4]})
                        if len(samples) < 3 and texts:
                            samples.append({"k": k, "yaml": self.case_text(spec), "distinct_texts": len(texts),
                                            "hash_seeds": hseeds[:4], "first_text_head": texts[0][:600]})
                        try:
                            vs = self.judge(spec, meta, inputs, per_seed)
                        except Exception:
                            harness_errors.append((k, None, "judge raised: " + traceback.format_exc()[-1500:]))
                            continue
                        for v in vs:
                            kf = self.attribute(spec, meta, inputs, per_seed, v)
                            if kf and not self.finding_listed(kf):
                                kf = None     # not a finding recorded for this property: report it
                            if kf:
                                known_hits[kf] = known_hits.get(kf, 0) + 1
                                stats.add("attributed_to:" + kf)
                            else:
                                violations.append((k, case, v))
                    if violations:
                        break
                # known-finding witnesses
                known, fixed = load_known()
                printed = set()
                for kfid, what, fn in self.witnesses():
                    listed = [e for e in known if e.get("id") == kfid and self.pid in e["properties"]]
                    still = fn(cluster)
                    stats.add("witness_run")
                    if still and listed:
                        printed.add(kfid)
                        print("KNOWN-FINDING: property=%s id=%s %s" % (self.pid, kfid, what), flush=True)
                    elif still and not listed:
                        violations.append((None, None, Violation("unlisted_witness_fails", [], {"finding": kfid, "what": what})))
                    else:
                        stats.add("witness_no_longer_fails:" + kfid)
                        print("NOTE: witness of %s no longer fails on this tree" % kfid, flush=True)
                # findings of another property's witness met by generated units of this check
                for kfid, n in sorted(known_hits.items()):
                    for part in kfid.replace("C04-K1+K2", "C04-K1 C04-K2").split():
                        if part in printed:
                            continue
                        e = [e for e in known if e.get("id") == part]
                        printed.add(part)
                        print("KNOWN-FINDING: property=%s id=%s %s (met by generated units; attributed by counterfactual "
                              "re-execution)" % (self.pid, part, e[0]["what"] if e else ""), flush=True)
                # report violations (minimised, replay-verified)
                reported = 0
                seen_classes = set()
                for k, case, v in violations:
                    if v.vclass in seen_classes and reported >= 3:
                        continue
                    seen_classes.add(v.vclass)
                    path = self.report(seed, tier, k, case, v)
                    print("VIOLATION property=%s replay=%s" % (self.pid, path), flush=True)
                    print("  class=%s hash_seeds=%s detail=%s" % (v.vclass, v.hseeds, json.dumps(v.detail)[:600]), flush=True)
                    reported += 1
                    rc = 1
        except orch.HarnessError as e:
            harness_errors.append((None, None, "HarnessError: %s" % e))
        except Exception:
            harness_errors.append((None, None, traceback.format_exc()[-3000:]))
        wall = time.time() - t0
        hist = {}
        for n in texts_per_spec.values():
            hist[str(n)] = hist.get(str(n), 0) + 1
        ev = {
            "property_id": self.pid, "tier": tier, "seed": seed, "level": self.level,
            "coverage": {
                "evaluations": evals,
                "distinct_nontrivial": len(nontrivial_keys),
                "rule": self.rule,
                "samples": samples or [{"note": "no unit completed"}],
                "specs": n_specs,
                "hash_seeds": hseeds,
                "units_per_hour": int(evals / max(wall, 1e-6) * 3600),
                "simulated_time": "none - the system has no clock; logical steps are fiber-iteration events of the reference runtime",
                "distinct_texts_per_spec_histogram": hist,
                "counters": dict(sorted(stats.c.items())),
                "known_finding_hits": known_hits,
                "harness_errors": len(harness_errors),
                "real_components": self.real,
                "stub_components": self.stubs,
                "code_digest": orch.code_digest(),
                "event_log_sha256": log.hexdigest(),
            },
            "assumptions": self.assumptions,
            "wall_s": round(wall, 2),
            "violations": len(violations),
        }
        self.extend_evidence(ev)
        if not os.environ.get("VERIF_NOEVIDENCE"):   # (mutant trials must not overwrite real evidence)
            os.makedirs(EVIDENCE_DIR, exist_ok=True)
            with open(os.path.join(EVIDENCE_DIR, self.pid + ".json"), "w") as f:
                json.dump(ev, f, indent=1, sort_keys=True, default=str)
        print("DONE property=%s specs=%d units=%d wall=%.1fs violations=%d known_hits=%s harness_errors=%d log=%s" % (
            self.pid, n_specs, evals, wall, len(violations), known_hits, len(harness_errors), log.hexdigest()[:16]), flush=True)
        if rc == 1:
            return 1
        if harness_errors:
            for k, h, msg in harness_errors[:5]:
                print("HARNESS-ERROR unit=%s/%s: %s" % (k, h, msg[-1200:]), file=sys.stderr, flush=True)
            return 2
        return 0

    def extend_evidence(self, ev):
        pass

    def log_view(self, result):
        """What of a unit result enters the event log digest (everything by default)."""
        return result

    # ---- violation reporting ---------------------------------------------
    def fails_same(self, case, v, cluster, hseeds):
        """Does this (possibly shrunk) case still violate with the same class on these seeds?"""
        spec, meta, inputs = case
        units = self.units_for(0, case, hseeds)
        res = cluster.run(units, fresh=self.fresh, batch=1)
        per_seed = {}
        for h in hseeds:
            r = res["0/%d" % h]
            if "harness_error" in r:
                return None
            per_seed[h] = r["ok"]
        try:
            vs = self.judge(spec, meta, inputs, per_seed)
        except Exception:
            return None
        for w in vs:
            if w.vclass == v.vclass:
                kf = self.attribute(spec, meta, inputs, per_seed, w)
                if not (kf and self.finding_listed(kf)):
                    return w
        return None

    def report(self, seed, tier, k, case, v):
        rdir = os.path.join(REPLAY_DIR, "tmp") if os.environ.get("VERIF_NOEVIDENCE") else REPLAY_DIR
        os.makedirs(rdir, exist_ok=True)
        path = os.path.join(rdir, "%s-%s-%s.json" % (self.pid, v.vclass, k if k is not None else "witness"))
        doc = {"property": self.pid, "check": type(self).__module__, "tier": tier, "verif_seed": seed,
               "code_digest": orch.code_digest(), "violation_class": v.vclass, "detail": v.detail,
               "hash_seeds": v.hseeds}
        if case is not None:
            spec, meta, inputs = case
            hseeds = v.hseeds or [0]
            mini = case
            steps = 0
            try:
                mini, v2, steps = self.minimise(case, v, hseeds)
                if v2 is not None:
                    doc["detail"] = v2.detail
            except Exception:
                doc["minimise_error"] = traceback.format_exc()[-1500:]
            spec, meta, inputs = mini
            doc.update({"yaml": self.case_text(spec), "spec": spec, "meta": meta, "inputs": inputs,
                        "minimise_steps": steps, "original_k": k})
            # replay in fresh interpreters must reproduce
            try:
                doc["replay_verified"] = bool(self.replay_doc(doc, quiet=True))
            except Exception:
                doc["replay_verified"] = False
                doc["replay_error"] = traceback.format_exc()[-1500:]
        with open(path, "w") as f:
            json.dump(doc, f, indent=1, default=str)
        return path

    def minimise(self, case, v, hseeds, max_tries=150, max_seconds=90):
        t0 = time.time()
        tries = 0
        steps = 0
        best_v = None
        with orch.Cluster(hseeds, per_seed=1, templates=self.templates) as cl:
            progress = True
            while progress and tries < max_tries and time.time() - t0 < max_seconds:
                progress = False
                for cand in self.shrink_candidates(*case):
                    tries += 1
                    if tries >= max_tries or time.time() - t0 > max_seconds:
                        break
                    w = self.fails_same(cand, v, cl, hseeds)
                    if w is not None:
                        case = cand
                        best_v = w
                        steps += 1
                        progress = True
                        break
        return case, best_v, steps

    def replay_doc(self, doc, quiet=False):
        """Re-run the recorded case on fresh interpreters with the recorded hash seeds.
        Returns the reproduced Violation or None."""
        case = (doc["spec"], doc["meta"], doc["inputs"])
        hseeds = doc["hash_seeds"] or [0]
        v = Violation(doc["violation_class"], hseeds, doc.get("detail"))
        with orch.Cluster(hseeds, per_seed=1, templates=self.templates) as cl:
            w = self.fails_same(case, v, cl, hseeds)
        if not quiet:
            if w is not None:
                print("VIOLATION property=%s replay=%s" % (self.pid, doc.get("_path", "?")))
                print("  reproduced class=%s detail=%s" % (w.vclass, json.dumps(w.detail)[:800]))
            else:
                print("NOT-REPRODUCED property=%s class=%s" % (self.pid, doc["violation_class"]))
        return w


# ------------------------------------------------------------------ judging helpers

def all_ok(results):
    return all(r["status"] == "ok" for r in results.values())


def rejection_violations(results, must_accept, allowed=()):
    """C08(d)-style: accept/reject must agree across seeds; legal-by-construction specs must
    compile, except for whitelisted (exception type, raising function) signatures that the
    unchanged tree is known to produce on corners of the generator's class."""
    vs = []
    oks = sorted(h for h, r in results.items() if r["status"] == "ok")
    rej = sorted(h for h, r in results.items() if r["status"] != "ok")
    if oks and rej:
        vs.append(Violation("seed_dependent_rejection", [oks[0], rej[0]],
                            {"accepted_on": oks[:4], "rejected_on": rej[:4], "reject": results[rej[0]]["reject"]}))
    elif rej and must_accept and (results[rej[0]]["reject"]["exc"], results[rej[0]]["reject"]["where"]) not in allowed:
        vs.append(Violation("legal_spec_rejected", [rej[0]], {"reject": results[rej[0]]["reject"]}))
    return vs


def exec_violations(results, want_outputs=True):
    """Per seed: every run executed and every output equals the dense model."""
    vs = []
    for h, r in sorted(results.items()):
        if r["status"] != "ok":
            continue
        for i, run in enumerate(r["runs"]):
            if run["exec"] == "exception" and run.get("in_rt") and "RtError" not in run.get("error", ""):
                # the reference runtime itself raised while executing the emitted program.  Every API entry point
                # validates what it is given and raises RtError; anything else that still escapes (an index or
                # key error deep inside a transformation handed inconsistent rank ids, say) is attributed to the
                # program as well, under its own class: on the unchanged tree no soak has ever produced one, and
                # either classification would equally count against the check there
                vs.append(Violation("exec_crash_inside_runtime", [h], {"input_set": i, "error": run.get("error"),
                                                                      "line": run.get("line")}))
                break
            if run["exec"] != "ok":
                vs.append(Violation("exec_" + run["exec"], [h], {"input_set": i, "error": run.get("error"),
                                                                  "line": run.get("line")}))
                break
            if not want_outputs:
                continue
            bad = {o: d for o, d in run["outputs"].items() if d["status"] != "ok"}
            if bad:
                o = sorted(bad)[0]
                vs.append(Violation("output_" + bad[o]["status"], [h],
                                    {"input_set": i, "output": o, "info": bad[o]}))
                break
            oob = {o: d["out_of_extent"] for o, d in run["outputs"].items() if d["out_of_extent"]}
            if oob:
                o = sorted(oob)[0]
                vs.append(Violation("output_out_of_extent", [h], {"input_set": i, "output": o, "coords": oob[o]}))
                break
            if run.get("bad_shapes"):
                # a tensor constructed with an explicit shape whose i-th entry is not the extent of its i-th rank:
                # the result (or the intermediate handed to the next Einsum) carries wrong extents
                vs.append(Violation("explicit_shape_wrong", [h], {"input_set": i, "shapes": run["bad_shapes"]}))
                break
        if vs:
            break
    return vs


def closed_violations(results):
    vs = []
    for h, r in sorted(results.items()):
        if r["status"] != "ok":
            continue
        c = r["closed"]
        if not c["parse_ok"]:
            vs.append(Violation("syntax_error", [h], c))
        elif c["unbound"]:
            vs.append(Violation("unbound_name", [h], {"unbound": c["unbound"][:6]}))
        elif c["loop_leaks"]:
            vs.append(Violation("loop_variable_escapes", [h], {"names": c["loop_leaks"][:6]}))
        if vs:
            break
    return vs


AFFINE_CF = [["K1"], ["K2"], ["K1", "K2"]]


def is_affine(meta):
    """The spec comes from the class-A generator (directly, or under a spacetime: class T over A)."""
    return meta.get("kind") == "affine"


def attribute_affine(results, v):
    """Known findings C04-K1/K2 on class-A specs, seen through another property's oracle: a failing output is
    attributed only if re-executing the same text with exactly that counterfactual rewrite applied (at least
    one rewritten site) makes the same run pass (DESIGN 3.5)."""
    if not v.vclass.startswith("output_") or not v.hseeds or "input_set" not in (v.detail or {}):
        return None
    run = results[v.hseeds[0]]["runs"][v.detail["input_set"]]
    cf = run.get("cf") or {}
    for name in ("K1", "K2", "K1+K2"):
        c = cf.get(name)
        if c and c["ok"] and all(n > 0 for n in (c.get("sites") or {}).values()):
            return "C04-" + name
    return None


def main_for(check_cls):
    chk = check_cls()
    argv = sys.argv[1:]
    if "--replay" in argv:
        ensure_fixed_hashseed()
        path = argv[argv.index("--replay") + 1]
        doc = json.load(open(path))
        doc["_path"] = path
        w = chk.replay_doc(doc)
        sys.exit(1 if w is not None else 0)
    sys.exit(chk.run(argv))
