"""dst selftest setup | determinism [n] | stub"""
import json
import os
import re
import subprocess
import sys

VERIF = os.path.dirname(os.path.dirname(os.path.abspath(__file__)))


def _run_check(pid, env_extra, tier="quick"):
    env = dict(os.environ)
    env.update(env_extra)
    p = subprocess.run([os.path.join(VERIF, "dst"), "check", pid, "--tier", tier], env=env,
                       capture_output=True, text=True)
    m = re.search(r"DONE .* log=([0-9a-f]+)", p.stdout)
    return p.returncode, (m.group(1) if m else None), p.stdout[-2000:] + p.stderr[-2000:]


def determinism(pids, seeds, specs=40):
    """Same VERIF_SEED twice with different node counts and under another orchestrator
    PYTHONHASHSEED: the event-log digests must agree."""
    bad = 0
    evid = os.path.join(VERIF, "evidence")
    saved = {}
    for pid in pids:
        p = os.path.join(evid, pid + ".json")
        saved[pid] = open(p).read() if os.path.exists(p) else None
    try:
        for pid in pids:
            for s in seeds:
                base = {"VERIF_SEED": str(s), "VERIF_SPECS": str(specs)}
                a = _run_check(pid, dict(base, VERIF_NODES_PER_SEED="2"))
                b = _run_check(pid, dict(base, VERIF_NODES_PER_SEED="1"))
                if a[0] not in (0,) or b[0] not in (0,) or a[1] is None or a[1] != b[1]:
                    bad += 1
                    print("DETERMINISM-FAIL %s seed=%s: rc %s/%s digests %s/%s\n%s" % (pid, s, a[0], b[0], a[1], b[1], a[2][-600:]))
                else:
                    print("determinism ok %s VERIF_SEED=%s digest=%s" % (pid, s, a[1]))
    finally:
        for pid, txt in saved.items():
            if txt is not None:
                open(os.path.join(evid, pid + ".json"), "w").write(txt)
    return bad


def setup():
    sys.path.insert(0, VERIF)
    from sim import orch
    import teaal  # noqa
    want = os.path.realpath(os.path.join(orch.repo_path(), "teaal"))
    got = os.path.realpath(os.path.dirname(teaal.__file__))
    if os.environ.get("TEAAL_REPO") is None and got != want:
        print("setup: /venv imports teaal from %s, expected %s" % (got, want))
        return 2
    import lark, sympy, networkx, ruamel.yaml  # noqa
    from checks import stubcheck
    rc = stubcheck.main(quick=True)
    if rc:
        return rc
    # nodes come up with the hash seed they are told
    with orch.Cluster([0, 7], per_seed=1, templates=1) as cl:
        res = cl.run([{"uid": "a", "hseed": 0, "fn": "units:ping", "args": {}},
                      {"uid": "b", "hseed": 7, "fn": "units:ping", "args": {}}])
        res2 = cl.run([{"uid": "c", "hseed": 7, "fn": "units:ping", "args": {}}], fresh=True)
        if res["a"]["ok"]["hashseed"] != "0" or res["b"]["ok"]["hashseed"] != "7" or \
                res2["c"]["ok"]["hash_a"] != res["b"]["ok"]["hash_a"] or res["a"]["ok"]["hash_a"] == res["b"]["ok"]["hash_a"]:
            print("setup: node hash seeds wrong: %r %r" % (res, res2))
            return 2
    print("setup ok")
    return 0


def main(argv):
    what = argv[0] if argv else "setup"
    if what == "setup":
        return setup()
    if what == "determinism":
        pids = argv[1].split(",") if len(argv) > 1 else ["C02"]
        n = int(argv[2]) if len(argv) > 2 else 3
        return 1 if determinism(pids, [1000 + i for i in range(n)]) else 0
    if what == "stub":
        from checks import stubcheck
        return stubcheck.main(quick=False)
    print(__doc__)
    return 2
