"""C06 - every emitted program is valid, closed Python."""
import ast

from checks import common
from gen import classes

# rejection signatures the unchanged tree produces on corners of the generators' classes (compiler
# crashes on unsupported combinations, not silent mis-compilations); anything else on a
# legal-by-construction spec is reported
REJ = {("KeyError", "trans/header.py:__make_shape"), ("KeyError", "ir/flow_graph.py:__build_project_interval"),
       ("AssertionError", "trans/canvas.py:__build_access")}


def has_nontrivial_loop_body(text):
    try:
        tree = ast.parse(text)
    except SyntaxError:
        return True
    for node in ast.walk(tree):
        if isinstance(node, ast.For):
            for s in node.body:
                if not isinstance(s, (ast.For, ast.AugAssign)):
                    return True
    return False


class C06(common.SpecCheck):
    pid = "C06"
    title = "Every emitted program is valid, closed Python"
    QUICK = {"nseeds": 8, "specs": 500, "round": 500, "budget": 0}
    rule = ("mixture of the legal classes S (shape partitioning), O (occupancy/flatten), A (affine, partitioned), K "
            "(cascades), T (spacetime graphics) and M (metrics mode, see C11) x hash-seed pool; EVERY distinct text "
            "reached under any seed goes through the definite-assignment analyser (model/closed.py) against a free-name "
            "set computed from the YAML alone, and is executed (a NameError at run time is also reported). distinct = "
            "distinct (spec, text); non-trivial = the text has a statement inside a loop other than the update "
            "(dynamic partitioning, getPayload, interval code, graphics/metrics hooks)")
    assumptions = ["allowed free names: declared inputs under <Name>_<RankOrder>, rank extents incl. level extents ROOT<i>, "
                   "scalars, symbolic partition sizes, HiFiber API names, Python builtins the compiler emits",
                   "known finding OUTONLY-INVERTED is left out by the generators (witness only)"]

    def gen(self, rng, k):
        return classes.gen_mixed(rng, [("S", 4), ("O", 4), ("Os", 1), ("A", 2), ("A+", 2), ("K", 3), ("T", 5), ("TK", 2), ("P", 1), ("M", 4), ("Mp", 2)])

    def nontrivial(self, spec, meta):
        return True

    def judge(self, spec, meta, inputs, results):
        vs = common.rejection_violations(results, must_accept=meta.get("class") not in ("M", "Mp", "A+"), allowed=REJ)
        vs += common.closed_violations(results)
        if not vs:
            # a use-before-def the static pass cannot see still shows up as a NameError when executed
            for h, r in sorted(results.items()):
                if r["status"] != "ok":
                    continue
                for i, run in enumerate(r["runs"]):
                    if run["exec"] == "exception" and run.get("error", "").startswith(("NameError", "UnboundLocalError")):
                        vs.append(common.Violation("runtime_name_error", [h], {"input_set": i, "error": run["error"],
                                                                               "line": run.get("line")}))
                        return vs
                    if run["exec"] == "syntax_error":
                        vs.append(common.Violation("syntax_error", [h], {"error": run.get("error")}))
                        return vs
        return vs

    def observe(self, spec, meta, results, stats):
        stats.add("class:" + meta["class"])
        seen = set()
        for r in results.values():
            if r["status"] == "ok" and r["text"] not in seen:
                seen.add(r["text"])
                stats.add("texts_analysed")
                if has_nontrivial_loop_body(r["text"]):
                    stats.add("texts_with_nontrivial_loop_body")

    def extend_evidence(self, ev):
        c = ev["coverage"]["counters"]
        ev["coverage"]["distinct_nontrivial"] = c.get("texts_with_nontrivial_loop_body", 0)


CHECK = C06

if __name__ == "__main__":
    common.main_for(C06)
