"""
Validation of the reference runtime (the stub for fibertree) before it is trusted:
 (1) the authors' golden programs tests/integration/*.py - their own statement of
     correct output - must execute on it and agree with the dense model;
 (2) algebraic self-checks of the tensor transformations and fiber operators.
A failure here is a harness error (exit 2), never a violation.
"""
import glob
import os
import random
import sys

VERIF = os.path.dirname(os.path.dirname(os.path.abspath(__file__)))
if VERIF not in sys.path:
    sys.path.insert(0, VERIF)

from gen import classes, spec as specmod  # noqa: E402
from model import rt  # noqa: E402
from sim import orch  # noqa: E402


def golden(n_inputs):
    import units
    root = os.path.join(orch.repo_path(), "tests", "integration")
    bad = []
    n = 0
    for py in sorted(glob.glob(os.path.join(root, "*.py"))):
        name = os.path.basename(py)[:-3]
        yml = os.path.join(root, name + ".yaml")
        if name.startswith("test_") or not os.path.exists(yml):
            continue
        spec = specmod.from_yaml(open(yml).read())
        text = open(py).read()
        outs = []
        from model import dense
        for e in spec["exprs"]:
            outs.append(dense.output_name(e))
        if len(set(outs)) != len(outs):
            continue  # an output written twice (example7): per-Einsum comparison undefined
        for i in range(n_inputs):
            rng = random.Random(orch.sub_seed("golden", name, i))
            ext = classes.gen_extents(rng, spec, 6)
            inp = classes.gen_inputs(rng, spec, ext, {}, ["dense", "sparse", "empty_one"][i % 3])
            rep, ns, ctx = units.execute(text, spec, inp, "plain")
            n += 1
            if rep["exec"] != "ok" or any(o["status"] != "ok" for o in rep["outputs"].values()) or rep["bad_names"]:
                bad.append((name, i, {k: rep.get(k) for k in ("exec", "error", "line", "outputs", "bad_names")}))
                break
    return n, bad


def algebra(n):
    bad = []
    for i in range(n):
        rng = random.Random(orch.sub_seed("algebra", i))
        rt.reset()
        shape = [rng.randint(1, 6) for _ in range(rng.randint(1, 3))]
        ids = ["R%d" % j for j in range(len(shape))]
        items = [(tuple(cs), v) for cs, v in ((tuple(c), v) for c, v in classes.gen_tensor(rng, shape, 0.6))]
        t = rt.make_tensor("T", ids, items)
        base = rt.tensor_dump(t)
        # split o merge = id
        d = rng.randrange(len(shape))
        step = rng.randint(1, 7)
        s = t.splitUniform(step, depth=d)
        m = s.mergeRanks(depth=d, levels=1, coord_style="absolute")
        m.setRankIds(ids)
        if rt.tensor_dump(m) != base:
            bad.append(("split/merge", shape, step, d))
        # partitions are disjoint and upper coordinate = multiple of step containing the element
        for cs, v in s.coo():
            if cs[d] % step or not (cs[d] <= cs[d + 1] < cs[d] + step):
                bad.append(("splitUniform coords", cs, step))
        # splitEqual o merge = id (top rank)
        s2 = t.splitEqual(rng.randint(1, 4))
        m2 = s2.mergeRanks(depth=0, levels=1, coord_style="absolute")
        m2.setRankIds(ids)
        if rt.tensor_dump(m2) != base:
            bad.append(("splitEqual/merge", shape))
        # swizzle o swizzle^-1 = id
        perm = list(ids)
        rng.shuffle(perm)
        if rt.tensor_dump(t.swizzleRanks(perm).swizzleRanks(ids)) != base:
            bad.append(("swizzle", perm))
        # flatten o unflatten = id
        if len(shape) >= 2:
            f = t.flattenRanks(depth=0, levels=1, coord_style="tuple").unflattenRanks(depth=0, levels=1)
            f.setRankIds(ids)
            if rt.tensor_dump(f) != base:
                bad.append(("flatten/unflatten", shape))
        # & | << against set algebra on leaf fibers
        a = rt.make_tensor("A", ["X"], [((c,), v) for (c,), v in
                                        ((tuple(k), v) for k, v in classes.gen_tensor(rng, [8], 0.5))]).getRoot()
        b = rt.make_tensor("B", ["X"], [((c,), v) for (c,), v in
                                        ((tuple(k), v) for k, v in classes.gen_tensor(rng, [8], 0.5))]).getRoot()
        ca, cb = set(a.getCoords()), set(b.getCoords())
        if [c for c, _ in (a & b)] != sorted(ca & cb):
            bad.append(("and", sorted(ca), sorted(cb)))
        if [c for c, _ in (a | b)] != sorted(ca | cb):
            bad.append(("or", sorted(ca), sorted(cb)))
        for c, (mask, pa, pb) in (a | b):
            if (rt.val(pa) != 0) != (c in ca) or (rt.val(pb) != 0) != (c in cb):
                bad.append(("or payload", c))
        z = rt.Fiber(1)
        if [c for c, _ in (z << b)] != sorted(cb) or z.getCoords() != sorted(cb):
            bad.append(("populate", sorted(cb)))
    return bad


def main(quick=True):
    sys.path.insert(0, orch.repo_path())
    n, bad = golden(3 if quick else 60)
    bad2 = algebra(50 if quick else 2000)
    if bad or bad2:
        for b in bad[:5] + bad2[:5]:
            print("STUB-VALIDATION-FAIL", b)
        return 2
    print("stub validation ok: %d golden executions, algebra checks passed" % n)
    return 0


if __name__ == "__main__":
    sys.exit(main(quick=False))
