"""C13 - fusion blocks are a legal, ordered partition of the Einsums."""
from checks import common
from checks.metrics_common import MetricsCheck
from gen import metrics as gm, spec as specmod
from sim import orch


class C13(MetricsCheck):
    pid = "C13"
    title = "Fusion blocks are a legal, ordered partition of the Einsums"
    QUICK = {"nseeds": 4, "specs": 300, "round": 300, "budget": 0}
    THOROUGH = {"nseeds": 8, "specs": 0, "round": 1200, "budget": 1200}
    rule = ("history machine, driven two ways. (1) 70%: histories of 2-6 Einsums (configuration from {cfgA,cfgB}, loop order "
            "and space/time split chosen so temporal prefixes collide and differ, functional components from a shared pool) "
            "fed ONE STEP AT A TIME to real Program/Hardware/Fusion objects; after EVERY step the blocks-so-far must be a "
            "legal partition of the prefix. (2) 30%: whole class-M compilations whose emitted dump is executed on the "
            "stand-ins and metrics['blocks'] read. Oracle, one-directional as stated and computed from the YAML alone: "
            "blocks list every Einsum once, in order, contiguously; two Einsums share a block only if same configuration, "
            "identical temporal loop ranks ahead of the first spatial rank, and no functional component (compute, "
            "intersector, sequencer) bound (non-empty binding list) in both. No schedule or fault dimension exists for this "
            "property; it is the operation-sequence-against-invariant half of the technique. distinct = distinct "
            "(history, block structure); non-trivial = some block holds >= 2 Einsums")

    def gen(self, rng, k):
        if rng.random() < 0.7:
            return gm.gen_fusion_history(rng)
        return gm.gen_metrics(rng, orch.repo_path())

    def units_for(self, k, case, hseeds):
        spec, meta, inputs = case
        if meta["mkind"] == "fusion":
            args = {"spec": spec, "yaml": specmod.to_yaml(spec)}
            fn = "units.metrics:fusion_steps"
        else:
            args = self.unit_args(spec, meta, inputs[:1])
            fn = self.unit_fn
        return [{"uid": "%d/%d" % (k, h), "hseed": h, "fn": fn, "args": args, "timeout": self.unit_timeout} for h in hseeds]

    def nontrivial(self, spec, meta):
        return False

    def judge(self, spec, meta, inputs, results):
        vs = common.rejection_violations(results, must_accept=False)
        for h, r in sorted(results.items()):
            if r["status"] != "ok" or vs:
                continue
            if meta["mkind"] == "fusion":
                if r["problems"]:
                    p = r["problems"][0]
                    vs.append(common.Violation(p["problem"]["kind"], [h], p))
            else:
                for i, run in enumerate(r["runs"]):
                    if run["exec"] == "ok" and run.get("block_problems"):
                        vs.append(common.Violation(run["block_problems"][0]["kind"], [h],
                                                   {"input_set": i, "blocks": run.get("blocks"), "problem": run["block_problems"][0]}))
                        break
        return vs

    def observe(self, spec, meta, results, stats):
        stats.add("mkind:" + meta["mkind"])
        for r in results.values():
            if r["status"] != "ok":
                stats.add("rejected:" + r["reject"]["exc"])
                break
            blocks = r["steps"][-1] if meta["mkind"] == "fusion" else (r["runs"][0].get("blocks") if r["runs"] else None)
            if blocks:
                if meta["mkind"] == "fusion":
                    stats.add("history_steps_checked", len(r["steps"]))
                if any(len(b) >= 2 for b in blocks):
                    stats.add("histories_with_a_fused_block")
                    self._nt = getattr(self, "_nt", set())
                    self._nt.add((orch.sha(specmod.to_yaml(spec)), repr(blocks)))
                stats.add("blocks_of_size=%d" % max(len(b) for b in blocks))
            break

    def log_view(self, result):
        return {k: v for k, v in result.items() if k in ("status", "steps", "problems", "reject")} if "steps" in result else \
            {"status": result["status"], "runs": [[r.get("blocks"), r.get("block_problems")] for r in result.get("runs", [])]}

    def extend_evidence(self, ev):
        ev["coverage"]["distinct_nontrivial"] = len(getattr(self, "_nt", set()))


CHECK = C13

if __name__ == "__main__":
    common.main_for(C13)
