"""C03 - occupancy partitioning and flattening never change the result."""
from checks import common
from gen import classes


class C03(common.SpecCheck):
    pid = "C03"
    title = "Occupancy partitioning and flattening never change the result"
    QUICK = {"nseeds": 8, "specs": 300, "round": 300, "budget": 0}
    rule = ("class-O specs (random product Einsum of 2-4 ranks; uniform_occupancy stacks of 1-2 levels with any "
            "input tensor holding the rank as leader, alone or beneath a uniform_shape split; or flatten() of 2-3 "
            "ranks of one tensor, optionally under a shape split, optionally followed by 1-2 occupancy levels on "
            "the flattened rank; level-ordered or default loop order) x hash-seed pool; every emitted text executed "
            "on the reference runtime for 3 input sets and compared with the dense model (inputs are positive, so "
            "a pair met twice or missed changes the sum). distinct = distinct (spec, text) pairs; non-trivial = "
            ">=2 partition directives or a flatten")
    assumptions = ["reference runtime model/rt.py implements the intended fibertree semantics (DESIGN 4.2): "
                   "splitEqual/splitNonUniform boundaries, flattenRanks tuple coordinates, getPayload by coordinate",
                   "rejections with the whitelisted signatures (compiler crashes on unsupported corners) are discarded"]
    ALLOWED_REJECTIONS = {("KeyError", "trans/header.py:__make_shape")}

    def gen(self, rng, k):
        return classes.gen_occ(rng)

    def nontrivial(self, spec, meta):
        return meta["nlevels"] >= 2 or meta["omode"] == "flatten"

    def judge(self, spec, meta, inputs, results):
        vs = common.rejection_violations(results, must_accept=True, allowed=self.ALLOWED_REJECTIONS)
        vs += common.exec_violations(results)
        return vs

    def observe(self, spec, meta, results, stats):
        stats.add("omode:" + meta["omode"])
        if meta["flat"]:
            if meta["flat"]["under_shape"]:
                stats.add("probe:flatten_under_shape_split")
            if meta["flat"]["nocc"]:
                stats.add("probe:occupancy_on_flattened_rank")
        for r, dirs in meta["part"].items():
            nocc = sum(1 for d in dirs if d.startswith("uniform_occupancy"))
            if nocc >= 2:
                stats.add("probe:multi_level_occupancy")
            if nocc and dirs[0].startswith("uniform_shape"):
                stats.add("probe:occupancy_beneath_shape")
        for r in results.values():
            if r["status"] == "ok":
                for run in r["runs"]:
                    if run["exec"] == "ok":
                        stats.merge_probes(run["probes"])
                break


CHECK = C03

if __name__ == "__main__":
    common.main_for(C03)
