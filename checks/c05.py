"""C05 - cascaded Einsums compose and are compiled independently of their predecessors."""
from checks import common
from checks.c06 import REJ
from gen import classes
from model import dense


class C05(common.SpecCheck):
    pid = "C05"
    title = "Cascaded Einsums compose and are compiled independently of their predecessors"
    unit_fn = "units:c05_unit"
    QUICK = {"nseeds": 8, "specs": 100, "round": 100, "budget": 0}
    rule = ("class-K cascades of 2-4 Einsums (per-Einsum shape / occupancy partitioning, loop orders, rank orders, "
            "optional spacetime; a quarter start with an index-math Einsum whose successors partition, flatten or re-use its index variables) x hash-seed pool. History = which Einsums were translated earlier on the same "
            "Program/TransUtils/Tensor objects: EVERY subsequence of the cascade (<= 15) is compiled and the text of "
            "S+[E] must equal text(S) followed by the stand-alone text of E with temporaries shifted by the number "
            "text(S) uses (refinement against the memoryless-compiler model). The full program is executed and compared "
            "with chained dense evaluation: every intermediate bound, unpartitioned, in declared / rank-order layout, "
            "under the name its readers use; text closed. distinct = distinct (spec, text); non-trivial = >= 3 Einsums "
            "or a partitioned predecessor")
    assumptions = ["temporaries are numbered by one monotone counter (tmp<N>); renumbering = shifting by a constant"]

    def gen(self, rng, k):
        if rng.random() < 0.25:
            spec, meta = classes.gen_cascade_conv(rng)
            meta["class"] = "K"
            return spec, meta
        spec, meta = classes.gen_cascade(rng)
        if rng.random() < 0.3:
            for e in spec["exprs"]:
                o = dense.output_name(e)
                if rng.random() < 0.5:
                    classes.add_spacetime(rng, spec, o, classes.effective_loop_order(spec, o), allow_coord=True,
                                          no_coord=classes.flat_no_coord(spec, o))
        meta["class"] = "K"
        return spec, meta

    def unit_args(self, spec, meta, inputs):
        return {"spec": spec, "inputs": inputs}

    def nontrivial(self, spec, meta):
        return meta["n"] >= 3 or any(e.get("part") for e in meta["einsums"][:-1])

    def judge(self, spec, meta, inputs, results):
        vs = common.rejection_violations(results, must_accept=True, allowed=REJ)
        if vs:
            return vs
        for h, r in sorted(results.items()):
            if r["status"] != "ok":
                continue
            if r["mismatches"]:
                vs.append(common.Violation("einsum_text_depends_on_predecessors", [h], r["mismatches"][0]))
                return vs
            if r["subseq_rejected"]:
                vs.append(common.Violation("subsequence_rejected", [h], {"subsequence": r["subseq_rejected"][0]}))
                return vs
        vs += common.closed_violations(results)
        vs += common.exec_violations(results)
        return vs

    def observe(self, spec, meta, results, stats):
        stats.add("cascade_len=%d" % meta["n"])
        kinds = [e["kind"] for e in meta["einsums"]]
        if "occ" in kinds[:-1]:
            stats.add("probe:predecessor_occupancy_partitioned")
        if "shape" in kinds[:-1]:
            stats.add("probe:predecessor_shape_partitioned")
        if spec.get("spacetime"):
            stats.add("probe:spacetime_in_cascade")
        for r in results.values():
            if r["status"] == "ok":
                stats.add("history_compiles", r["compiles"])
            break
        reads = 0
        outs = [dense.output_name(e) for e in spec["exprs"]]
        for e in spec["exprs"]:
            if sum(1 for t in dense.expr_tensors(e) if t in outs) >= 2:
                stats.add("probe:successor_reads_two_intermediates")
        for o in outs[:-1]:
            if not spec["decl"][o]:
                stats.add("probe:rank0_intermediate")


CHECK = C05

if __name__ == "__main__":
    common.main_for(C05)
