"""C02 - shape-based partitioning never changes the result and is undone on the output."""
from checks import common
from gen import classes


class C02(common.SpecCheck):
    pid = "C02"
    title = "Shape-based partitioning never changes the result and is undone on the output"
    rule = ("class-S specs (random Einsum + uniform_shape/nway_shape stacks of 1-3 levels on a random subset of "
            "ranks, literal/symbolic sizes incl. sizes not dividing / exceeding the extent, default / level-ordered "
            "/ arbitrary loop orders) x hash-seed pool; every emitted text executed on the reference runtime for 3 "
            "input sets and compared with the dense Einsum model. distinct = distinct (spec, emitted text) pairs; "
            "non-trivial = >=2 partitioned ranks or >=2 partition levels")
    assumptions = ["reference runtime model/rt.py implements the intended fibertree semantics (DESIGN 4.2)",
                   "dense model model/dense.py is the meaning of an Einsum",
                   "output-only ranks: inner steps divide the enclosing step and levels stay ordered "
                   "(known findings KF-OUTONLY-CLIP / KF-OUTONLY-INVERTED, witness only)"]

    def gen(self, rng, k):
        return classes.gen_shape(rng)

    def nontrivial(self, spec, meta):
        return meta["npart"] >= 2 or meta["nlevels"] >= 2

    def judge(self, spec, meta, inputs, results):
        vs = common.rejection_violations(results, must_accept=True)
        vs += common.exec_violations(results)
        return vs

    def observe(self, spec, meta, results, stats):
        ext = meta["extents"]
        for r, dirs in meta["part"].items():
            kinds = {d.split("(")[0] for d in dirs}
            if len(kinds) > 1:
                stats.add("probe:nway_and_uniform_in_one_stack")
            for d in dirs:
                st = classes.step_of(d, ext[r], meta["syms"])
                if st > ext[r]:
                    stats.add("probe:size_exceeds_extent")
                elif ext[r] % st:
                    stats.add("probe:size_does_not_divide_extent")
            if any(not d[d.index("(") + 1:-1].isdigit() for d in dirs):
                stats.add("probe:symbolic_size")
            if r in meta["out_only"]:
                stats.add("probe:partitioned_output_only_rank")
        stats.add("lo_mode:" + meta["lo_mode"])
        for r in results.values():
            if r["status"] == "ok":
                for run in r["runs"]:
                    if run["exec"] == "ok":
                        stats.merge_probes(run["probes"])
                break


CHECK = C02

if __name__ == "__main__":
    common.main_for(C02)
