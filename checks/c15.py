"""C15 - compilation does not mutate its inputs and is repeatable (history machine with faults)."""
import copy
import json
import os

from checks import common
from gen import classes, spec as specmod
from sim import orch

ACCEL = ["gamma", "extensor", "extensor-energy", "outerspace", "sigma"]

ILLEGAL = [
    ("repeated_tensor", "einsum:\n  declaration:\n    A: [M]\n    Z: [M]\n  expressions:\n    - Z[m] = A[m] * A[m]\n"),
    ("undeclared_tensor", "einsum:\n  declaration:\n    A: [M]\n    Z: [M]\n  expressions:\n    - Z[m] = A[m] * B[m]\n"),
    ("terms_over_different_ranks", "einsum:\n  declaration:\n    A: [M]\n    B: [K]\n    Z: [M]\n  expressions:\n    - Z[m] = A[m] + B[k]\n"),
    ("flatten_with_other_directive", "einsum:\n  declaration:\n    A: [K, M]\n    Z: [M]\n  expressions:\n    - Z[m] = A[k, m]\nmapping:\n  partitioning:\n    Z:\n      (K, M): [flatten(), uniform_shape(2)]\n"),
    ("nway_after_occupancy", "einsum:\n  declaration:\n    A: [K, M]\n    Z: [M]\n  expressions:\n    - Z[m] = A[k, m]\nmapping:\n  partitioning:\n    Z:\n      K: [uniform_occupancy(A.2), nway_shape(2)]\n"),
]


_MM = "einsum:\n  declaration:\n    A: [K, M]\n    B: [K, N]\n    Z: [M, N]\n  expressions:\n    - Z[m, n] = A[k, m] * B[k, n]\nmapping:\n  partitioning:\n    Z:\n"
# specifications over the SAME rank names (K, M, N - also the accelerators' names) whose partitioning gives
# those names different roots / levels: anything memoised per rank name across compilations shows up here
COLLIDING = [
    ("mm-flatten-MK-occ", _MM + "      (M, K): [flatten()]\n      MK: [uniform_occupancy(A.2)]\n"),
    ("mm-shape-flatten-MK0-occ", _MM + "      K: [uniform_shape(2)]\n      (M, K0): [flatten()]\n      MK0: [uniform_occupancy(A.2)]\n"),
    ("mm-K-two-shapes", _MM + "      K: [uniform_shape(4), uniform_shape(2)]\n"),
    ("mm-K-occ", _MM + "      K: [uniform_occupancy(A.3)]\n      M: [uniform_shape(2)]\n"),
    ("mm-KM-flatten", _MM + "      (K, M): [flatten()]\n"),
    ("mm-hand-tiled", "einsum:\n  declaration:\n    A: [K1, K0, M]\n    B: [K1, K0, N]\n    Z: [M, N]\n  expressions:\n    - Z[m, n] = A[k1, k0, m] * B[k1, k0, n]\n"),
    ("mm-N-nway", _MM + "      N: [nway_shape(2)]\n      K: [uniform_shape(3)]\n"),
]


class C15(common.SpecCheck):
    pid = "C15"
    title = "Compilation does not mutate its inputs and is repeatable"
    unit_fn = "units.c15:c15_unit"
    fresh = True
    templates = 4
    unit_timeout = 400
    QUICK = {"nseeds": 4, "specs": 32, "round": 32, "budget": 0}
    THOROUGH = {"nseeds": 8, "specs": 0, "round": 48, "budget": 1200}
    rule = ("history machine: each unit is one history of 2-12 operations over a pool of 2-4 specifications (the five "
            "accelerator specs in metrics mode, generated S/O/K/T/A specs in plain mode, generated class-M specs (synthetic architectures, perturbed accelerators) in metrics mode, and hand-written matmul mappings over the same rank names K/M/N whose partitioning gives those names different roots and levels), run in a pristine child of a "
            "template interpreter per hash seed. Operations: parse, compile on SHARED parsed objects, compile on fresh "
            "objects, and the faults compile_rejected (illegal spec raises, life goes on) and compile_aborted (SimAbort "
            "raised from sys.settrace at the n-th teaal line event; on fresh objects, or on a shared bundle which is then "
            "tainted and excluded). Invariants after EVERY operation: every untainted bundle deep-equals its parse-time "
            "snapshot; every successful compilation returns exactly T(spec,h), the text from a pristine fork. Fault-free "
            "and fault-injecting histories are separate (half each). distinct = distinct (history, seed) pairs; "
            "non-trivial = the history compiles some bundle at least twice or contains a fault")
    assumptions = ["nothing is promised about objects handed to a compilation that did not complete (tainted bundles)",
                   "aborts are raised only at line events of teaal's own frames, never inside lark/sympy/networkx"]

    def __init__(self):
        self.accel = {}
        root = os.path.join(orch.repo_path(), "tests", "integration")
        for n in ACCEL:
            p = os.path.join(root, n + ".yaml")
            if os.path.exists(p):
                self.accel[n] = open(p).read()
        self.fault_counts = {"rejected": 0, "aborted": 0, "abort_missed": 0}
        self.abort_sites = {}

    def case_text(self, spec):
        return json.dumps({"pool": [s["name"] for s in spec["specs"]], "ops": spec["ops"]})

    def gen(self, rng, k):
        faults = (k % 2 == 1)
        pool = []
        n = rng.randint(2, 4)
        names = sorted(self.accel)
        for _ in range(n):
            if names and rng.random() < 0.55:
                nm = rng.choice(names)
                pool.append({"name": nm, "yaml": self.accel[nm], "mode": "metrics", "legal": True})
            else:
                sp, meta = classes.gen_mixed(rng, [("S", 3), ("O", 3), ("K", 3), ("T", 3), ("A", 2), ("M", 4)])
                pool.append({"name": "gen-%s-%s" % (meta["class"], orch.sha(specmod.to_yaml(sp))[:6]),
                             "yaml": specmod.to_yaml(sp), "mode": meta.get("mode", "plain"), "legal": True})
        if rng.random() < 0.6:
            for nm, y in rng.sample(COLLIDING, rng.randint(1, 2)):
                pool.insert(rng.randrange(len(pool) + 1), {"name": nm, "yaml": y, "mode": "plain", "legal": True})
        if faults:
            nm, y = rng.choice(ILLEGAL)
            pool.append({"name": "illegal-" + nm, "yaml": y, "mode": "plain", "legal": False})
        legal = [i for i, s in enumerate(pool) if s["legal"]]
        ops = []
        nb = 0
        for _ in range(rng.randint(2, 12)):
            x = rng.random()
            if nb == 0 or x < 0.2:
                ops.append(["parse", rng.choice(legal)])
                nb += 1
            elif x < 0.6:
                ops.append(["compile", rng.randrange(nb)])
            elif x < 0.75 or not faults:
                ops.append(["compile_fresh", rng.choice(legal)])
            elif x < 0.85:
                ops.append(["compile_rejected", len(pool) - 1])
            else:
                shared = rng.random() < 0.4
                ops.append(["compile_aborted", rng.choice(legal), round(rng.random(), 4), shared, rng.randrange(nb)])
        # make sure shared objects are really re-used
        if not any(o[0] == "compile" for o in ops):
            ops.append(["compile", 0])
        ops.append(["compile", rng.randrange(nb)])
        spec = {"specs": pool, "ops": ops}
        meta = {"faults": faults, "class": "H"}
        return spec, meta

    def inputs(self, rng, spec, meta):
        return []

    def unit_args(self, spec, meta, inputs):
        return copy.deepcopy(spec)

    def nontrivial(self, spec, meta):
        comp = [o[1] for o in spec["ops"] if o[0] == "compile"]
        return len(comp) != len(set(comp)) or meta["faults"]

    def judge(self, spec, meta, inputs, results):
        vs = []
        for h, r in sorted(results.items()):
            if r["status"] == "harness":
                raise RuntimeError("C15 unit failed: " + r.get("error", ""))
            # a generated pool spec the compiler rejects even in a pristine fork is simply an
            # illegal member of the history (its compilations are expected to raise)
            if r["violations"]:
                v = r["violations"][0]
                vs.append(common.Violation(v["kind"], [h], v))
                break
        return vs

    def observe(self, spec, meta, results, stats):
        if self.nontrivial(spec, meta):
            self._nt = getattr(self, "_nt", set())
            for h in results:
                self._nt.add((orch.sha(self.case_text(spec)), h))
        stats.add("histories_with_faults" if meta["faults"] else "histories_fault_free")
        stats.add("ops", len(spec["ops"]))
        for r in results.values():
            if r.get("reference_errors"):
                stats.add("pool_specs_rejected_by_pristine_compile", len(r["reference_errors"]))
            break
        for h, r in results.items():
            for k2, v in r.get("faults", {}).items():
                self.fault_counts[k2] += v
            for site in r.get("abort_sites", []):
                fn = site
                self.abort_sites[fn] = self.abort_sites.get(fn, 0) + 1
            stats.add("compilations", r.get("compiles", 0))

    def log_view(self, result):
        return {k: v for k, v in result.items() if k not in ("events",)}

    def extend_evidence(self, ev):
        ev["coverage"]["distinct_nontrivial"] = len(getattr(self, "_nt", set()))
        ev["coverage"]["fault_kinds_fired"] = dict(self.fault_counts)
        top = sorted(self.abort_sites.items(), key=lambda kv: -kv[1])[:25]
        ev["coverage"]["abort_landing_sites_top"] = dict(top)
        ev["coverage"]["distinct_abort_sites"] = len(self.abort_sites)

    def shrink_candidates(self, spec, meta, inputs):
        ops = spec["ops"]
        for i in range(len(ops)):
            s = copy.deepcopy(spec)
            del s["ops"][i]
            if s["ops"] and any(o[0] == "parse" for o in s["ops"][:1]):
                yield s, meta, inputs
        for i, o in enumerate(ops):
            if o[0] in ("compile_aborted", "compile_rejected"):
                s = copy.deepcopy(spec)
                s["ops"][i] = ["compile_fresh", o[1]] if spec["specs"][o[1]]["legal"] else ["parse", 0]
                yield s, meta, inputs


CHECK = C15

if __name__ == "__main__":
    common.main_for(C15)
