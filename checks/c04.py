"""C04 - affine index expressions are evaluated exactly, with or without partitioning."""
from checks import common
from gen import classes


class C04(common.SpecCheck):
    pid = "C04"
    title = "Affine index expressions are evaluated exactly, with or without partitioning"
    QUICK = {"nseeds": 8, "specs": 300, "round": 300, "budget": 0}
    rule = ("class-A specs (1-D/2-D convolution with stride and dilation coefficients 1-3, subsampling, optional "
            "channel ranks, consistent extents; loop orders over the output rank and the filter rank or the accessed "
            "tensor's own rank; 0-1 shape-partition levels (2 when the halo is zero) on the output rank with the "
            "input rank following) x hash-seed pool; emitted text executed on 3 input sets; oracle = dense model "
            "(out-of-range reads 0) and no stored output coordinate outside the declared extent. Failing units are "
            "attributed to known findings K1/K2 only by counterfactual re-execution of the same text. distinct = "
            "distinct (spec, text); non-trivial = partitioned, or a coefficient > 1")
    assumptions = ["reference runtime project()/prune()/iterRangeShapeRef semantics (DESIGN 4.2)",
                   ">=2 shape levels on an index-math rank with non-zero halo are generated only for the K3 witness",
                   "known findings K1 (float rationals) and K2 (unclipped interval end) are attributed by counterfactual "
                   "rewrite of the emitted fragment, never by input pattern"]
    ALLOWED_REJECTIONS = {("KeyError", "ir/flow_graph.py:__build_project_interval")}
    CF = [["K1"], ["K2"], ["K1", "K2"]]

    def gen(self, rng, k):
        return classes.gen_affine(rng)

    def unit_args(self, spec, meta, inputs):
        a = super().unit_args(spec, meta, inputs)
        a["counterfactuals"] = self.CF
        return a

    def nontrivial(self, spec, meta):
        return meta["npart"] >= 1 or any(d["a"] > 1 or d["b"] > 1 for d in meta["dims"])

    def judge(self, spec, meta, inputs, results):
        vs = common.rejection_violations(results, must_accept=True, allowed=self.ALLOWED_REJECTIONS)
        vs += common.exec_violations(results)
        return vs

    def attribute(self, spec, meta, inputs, results, v):
        if not v.vclass.startswith("output_"):
            return None
        h = v.hseeds[0]
        run = results[h]["runs"][v.detail["input_set"]]
        cf = run.get("cf") or {}
        for name in ("K1", "K2", "K1+K2"):
            c = cf.get(name)
            if c and c["ok"] and all(n > 0 for n in c["sites"].values()):
                return "C04-" + name
        return None

    def observe(self, spec, meta, results, stats):
        for d in meta["dims"]:
            if d["a"] > 1:
                stats.add("probe:stride")
            if d["b"] > 1:
                stats.add("probe:dilation")
            if not d["s"]:
                stats.add("probe:subsampling")
            if d["q"] in meta["part"]:
                stats.add("probe:partitioned_index_math_rank")
                if len(meta["part"][d["q"]]) > 1:
                    stats.add("probe:two_level_zero_halo")
        if len([d for d in meta["dims"] if d["q"] in meta["part"]]) >= 2:
            stats.add("claimed_domain:two_partitioned_index_math_ranks")
        else:
            stats.add("baseline:single_text_expected")
        lo = (spec.get("loop_order") or {}).get("O") or []
        if any(x.rstrip("01") in ("W", "H") for x in lo):
            stats.add("probe:loop_over_accessed_rank")
        for r in results.values():
            if r["status"] == "ok":
                for run in r["runs"]:
                    if run["exec"] == "ok":
                        stats.merge_probes(run["probes"])
                break


CHECK = C04

if __name__ == "__main__":
    common.main_for(C04)
