"""Shared base of the metrics-mode checks (C11, C12, C13, C14)."""
from checks import common
from gen import classes, metrics as gm, spec as specmod
from sim import orch


class MetricsCheck(common.SpecCheck):
    unit_fn = "units.metrics:run_metrics"
    QUICK = {"nseeds": 8, "specs": 160, "round": 160, "budget": 0}
    boost = 0
    lf_any_leader = False     # True where only the instrumentation is judged, not the computed tensors
    stubs = common.SpecCheck.stubs + [
        "Metrics / Traffic / Compute / Format / intersector models -> recording stand-ins model/standins.py",
        "trace files -> simulated in-memory trace store (nothing touches the disk)"]

    def gen(self, rng, k):
        return gm.gen_metrics(rng, orch.repo_path(), lf_any_leader=self.lf_any_leader)

    def unit_args(self, spec, meta, inputs):
        return {"spec": spec, "yaml": specmod.to_yaml(spec), "inputs": inputs, "boost": self.boost}

    def nontrivial(self, spec, meta):
        return True

    def base_violations(self, results):
        """rejections are legitimate in class M (the compiler decides acceptance) but must not
        depend on the seed; a runtime failure of an accepted program is reported."""
        vs = common.rejection_violations(results, must_accept=False)
        vs += common.exec_violations(results, want_outputs=False)
        return vs

    def observe(self, spec, meta, results, stats):
        stats.add("mkind:" + meta["mkind"])
        if meta["mkind"] == "accel":
            stats.add("accel:" + meta["name"])
        for r in results.values():
            stats.add("accepted" if r["status"] == "ok" else "rejected_specs")
            break
