"""C14 - execution time is the bottleneck-per-block roll-up of component times."""
from checks import common
from checks.metrics_common import MetricsCheck


class C14(MetricsCheck):
    pid = "C14"
    title = "Execution time is the bottleneck-per-block roll-up of component times"
    boost = 40
    rule = ("class-M specs (cascades, two configurations, instance counts 1-101, clock and bandwidth perturbed) x hash-seed "
            "pool (dump text differs per seed). The counting stand-ins hand out exact values 4^i (Fractions, so '/' stays "
            "exact); the program is executed once plainly and once per handed-out value with that value boosted by 4^60 so "
            "that every timed component dominates its block in some run (otherwise max() hides an omission). Oracle, computed "
            "from the YAML by independent code and from the executed metrics dict: metrics['time'] == sum over "
            "metrics['blocks'] of max over components of the sum over the block's Einsums of metrics[e][c]['time'], over all "
            "(e,c) that have a time; each metrics[e][c]['time'] == count / (rate * instances) with rate = the configuration's "
            "clock_frequency (compute, intersector, sequencer, merger) or the component's bandwidth (DRAM), instances from the "
            "level name NAME[0..N] holding c. distinct = distinct (spec, text); non-trivial = >= 2 timed components")
    assumptions = ["components of one name have the same attributes in every configuration (the generator keeps them so)",
                   "buffer/cache components carry no time of their own in the dump"]

    def nontrivial(self, spec, meta):
        return False

    def judge(self, spec, meta, inputs, results):
        vs = self.base_violations(results)
        if vs:
            return vs
        for h, r in sorted(results.items()):
            if r["status"] != "ok":
                continue
            for i, run in enumerate(r["runs"]):
                if run["exec"] != "ok":
                    continue
                probs = run.get("metrics_problems") or run.get("time_problems") or []
                if probs:
                    vs.append(common.Violation(probs[0]["kind"], [h], {"input_set": i, "problem": probs[0]}))
                    return vs
        return vs

    def observe(self, spec, meta, results, stats):
        super().observe(spec, meta, results, stats)
        for r in results.values():
            if r["status"] == "ok":
                for run in r["runs"]:
                    if run["exec"] == "ok":
                        stats.add("valuations_executed", 1 + run.get("boosted_runs", 0))
                        stats.add("component_times_checked", run.get("timed_components", 0))
                if r["runs"] and r["runs"][0]["exec"] == "ok" and r["runs"][0].get("timed_components", 0) >= 2:
                    self._nt = getattr(self, "_nt", set())
                    self._nt.add(common.orch.sha(r["text"]))
            break

    def extend_evidence(self, ev):
        ev["coverage"]["distinct_nontrivial"] = len(getattr(self, "_nt", set()))


CHECK = C14

if __name__ == "__main__":
    common.main_for(C14)
