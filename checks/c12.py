"""C12 - every trace the metrics dump consumes is produced during collection."""
from checks import common
from checks.metrics_common import MetricsCheck


class C12(MetricsCheck):
    pid = "C12"
    title = "Every trace the metrics dump consumes is produced during collection"
    lf_any_leader = True
    rule = ("class-M specs x hash-seed pool (registration order and set-built trace lists differ per seed). The emitted "
            "metrics program runs against a SIMULATED TRACE STORE: endCollect writes <prefix>-<rank>-<type>.csv for every "
            "registration since beginCollect, filterTrace reads two names and writes one, buffetTraffic/cacheTraffic/numIters "
            "read names; a read of an absent name is recorded. The recorded history (global event sequence numbers) is "
            "checked afterwards: per Einsum exactly one beginCollect(prefix) then one endCollect, in order, never nested, no "
            "loop iteration outside a section; every name read was written earlier in the same section; every consumeTrace "
            "names a consumable registration of the open section; every intersector queried in the dump was created after "
            "beginCollect, before the first iteration, and (dense input set) fed while collecting. distinct = distinct "
            "(spec, text); non-trivial = the dump reads at least one trace name or queries an intersector")
    assumptions = ["trace-file semantics of the stand-ins as stated in DESIGN 4.2 (endCollect materialises registered traces)",
                   "class-M bindings follow the accelerator patterns (rank orders concordant with the loop order; an eager "
                   "subtree is one rank evicted on a loop rank above it)",
                   "leader-follower leaders other than the first operand are generated here (only traces are judged; "
                   "the tensors such programs compute are known finding C11-LF-ORDER and are not looked at)"]

    def nontrivial(self, spec, meta):
        return False

    def judge(self, spec, meta, inputs, results):
        vs = self.base_violations(results)
        if vs:
            return vs
        for h, r in sorted(results.items()):
            if r["status"] != "ok":
                continue
            for i, run in enumerate(r["runs"]):
                if run["exec"] == "ok" and run["history_problems"]:
                    p = run["history_problems"][0]
                    vs.append(common.Violation(p["kind"], [h], {"input_set": i, "problem": p}))
                    return vs
        return vs

    def observe(self, spec, meta, results, stats):
        super().observe(spec, meta, results, stats)
        for r in results.values():
            if r["status"] == "ok":
                for run in r["runs"]:
                    if run["exec"] == "ok":
                        stats.add("history_events", run["history_events"])
                        stats.add("trace_reads_checked", run["reads_checked"])
                        stats.add("consumeTrace_events", run["consume_events"])
                        stats.add("intersectors_queried", run["intersectors_queried"])
                if r["runs"] and r["runs"][0]["exec"] == "ok" and (r["runs"][0]["reads_checked"] or r["runs"][0]["intersectors_queried"]):
                    self._nt = getattr(self, "_nt", set())
                    self._nt.add(common.orch.sha(r["text"]))
            break

    def extend_evidence(self, ev):
        ev["coverage"]["distinct_nontrivial"] = len(getattr(self, "_nt", set()))


CHECK = C12

if __name__ == "__main__":
    common.main_for(C12)
