"""C16 - spacetime display is observation-only, complete and unambiguous."""
import json

from checks import common
from checks.c06 import REJ
from gen import classes


class C16(common.SpecCheck):
    pid = "C16"
    title = "Spacetime display is observation-only, complete and unambiguous"
    QUICK = {"nseeds": 8, "specs": 300, "round": 300, "budget": 0}
    rule = ("class-T specs (class P/S/O/A Einsum, or a class-K cascade in which some Einsums carry a spacetime and some do not, + spacetime: any split of the loop ranks into space and time, .pos/.coord "
            "styles, optional slip) x hash-seed pool; executed on the reference runtime with a recording canvas stand-in. "
            "Oracle: tensors equal the dense model (= the twin without spacetime); exactly one addActivity per executed "
            "update between createCanvas and displayCanvas; one point per displayed tensor, each with as many coordinates "
            "as that tensor had ranks when displayed; and - when levels are looped outermost to innermost (all loop ranks "
            "are always stamped by the generator) - all (space, time) stamps distinct. distinct = distinct (spec, text); "
            "non-trivial = partitioned spec (seed-dependent text)")
    assumptions = ["canvas stand-in records createCanvas/addActivity/displayCanvas; update = in-place += / <<= on a payload",
                   "coordinate-style stamps on flattened ranks are known finding C16-FLATCOORD (witness only)",
                   "spacetime over class-A specs: a failing output is attributed to C04-K1/K2 only by counterfactual re-execution"]

    def gen(self, rng, k):
        if rng.random() < 0.15:
            spec, meta = classes.gen_cascade_spacetime(rng)
            meta["class"] = "TK"
            return spec, meta
        spec, meta = classes.gen_spacetime(rng)
        meta["class"] = "T"
        return spec, meta

    def unit_args(self, spec, meta, inputs):
        a = super().unit_args(spec, meta, inputs)
        a["canvas"] = True
        if common.is_affine(meta):
            a["counterfactuals"] = common.AFFINE_CF
        return a

    def attribute(self, spec, meta, inputs, results, v):
        # spacetime over class A meets C04's known findings K1/K2 (float rationals, unclipped interval end)
        if common.is_affine(meta):
            return common.attribute_affine(results, v)
        return None

    def nontrivial(self, spec, meta):
        return bool(meta.get("npart"))

    def levels_ordered(self, meta, lo=None):
        lo = meta["loop_ranks"] if lo is None else lo
        seen = {}
        for r in lo:
            root = r.rstrip("0123456789")
            lvl = int(r[len(root):]) if r[len(root):] else None
            if lvl is not None:
                if root in seen and seen[root] < lvl:
                    return False
                seen[root] = lvl
        return True

    def judge(self, spec, meta, inputs, results):
        vs = common.rejection_violations(results, must_accept=True, allowed=REJ)
        vs += common.exec_violations(results)
        if vs:
            return vs
        for h, r in sorted(results.items()):
            if r["status"] != "ok":
                continue
            # Einsums that display something, in program order (single-Einsum classes: the one Einsum)
            if meta.get("st_map") is not None:
                from model import dense
                outs = [dense.output_name(e) for e in spec["exprs"]]
                shown = [(o, meta["st_map"][o]["loop_ranks"]) for o in outs if o in meta["st_map"]]
            else:
                shown = [(None, meta["loop_ranks"])]
            for i, run in enumerate(r["runs"]):
                cv = run.get("canvas") or []
                if len(cv) != len(shown):
                    vs.append(common.Violation("canvas_count", [h], {"input_set": i, "canvases": len(cv), "expected": len(shown)}))
                    return vs
                for ci, (c, (oname, lranks)) in enumerate(zip(cv, shown)):
                    if not c["displayed"]:
                        vs.append(common.Violation("canvas_not_displayed", [h], {"input_set": i, "einsum": oname}))
                        return vs
                    upd = c["updates_at_display"] - c["updates_at_creation"]
                    outside = c["total_updates"] - upd if len(shown) == 1 and len(spec["exprs"]) == 1 else 0
                    if c["n_acts"] != upd or outside:
                        vs.append(common.Violation("activities_vs_updates", [h], {"input_set": i, "einsum": oname, "activities": c["n_acts"],
                                                                                  "updates": upd, "updates_outside_canvas": outside}))
                        return vs
                    stamps = set()
                    ordered = self.levels_ordered(meta, lranks)
                    for j, (pts, st, nupd) in enumerate(c["acts"]):
                        if nupd != c["updates_at_creation"] + j + 1:
                            vs.append(common.Violation("activity_not_per_update", [h], {"input_set": i, "einsum": oname, "activity": j}))
                            return vs
                        if len(pts) != len(c["ranks"]):
                            vs.append(common.Violation("points_vs_tensors", [h], {"input_set": i, "points": len(pts), "tensors": c["names"]}))
                            return vs
                        for p, ranks, name in zip(pts, c["ranks"], c["names"]):
                            if not isinstance(p, list) or len(p) != len(ranks):
                                vs.append(common.Violation("point_arity", [h], {"input_set": i, "tensor": name, "ranks": ranks, "point": p}))
                                return vs
                        key = json.dumps(st)
                        if key in stamps and ordered:
                            vs.append(common.Violation("duplicate_stamp", [h], {"input_set": i, "einsum": oname, "stamp": st}))
                            return vs
                        stamps.add(key)
        return vs

    def observe(self, spec, meta, results, stats):
        stats.add("base:" + meta["base"])
        if meta.get("st_map") is not None:
            stats.add("probe:cascade_einsums_with_spacetime", len(meta["st_map"]))
            if any(v["st"].get("opt") == "slip" for k2, v in meta["st_map"].items() if k2 != list(meta["st_map"])[0]):
                stats.add("probe:slip_on_later_einsum")
            return
        st = meta["st"]
        if st.get("opt") == "slip":
            stats.add("probe:slip")
        for x in st["space"] + st["time"]:
            if x.endswith(".coord"):
                stats.add("probe:coord_style")
                if x[:-6][-1:].isdigit():
                    stats.add("probe:coord_on_partition_level")
                break
        if not st["space"]:
            stats.add("probe:empty_space")
        if not st["time"]:
            stats.add("probe:empty_time")
        if self.levels_ordered(meta):
            stats.add("stamp_uniqueness_checked")
        for r in results.values():
            if r["status"] == "ok":
                for run in r["runs"]:
                    if run["exec"] == "ok":
                        stats.add("activities_checked", run["canvas"][0]["n_acts"] if run.get("canvas") else 0)
                break


CHECK = C16

if __name__ == "__main__":
    common.main_for(C16)
