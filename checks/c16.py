"""C16 - spacetime display is observation-only, complete and unambiguous."""
import json

from checks import common
from checks.c06 import REJ
from gen import classes


class C16(common.SpecCheck):
    pid = "C16"
    title = "Spacetime display is observation-only, complete and unambiguous"
    QUICK = {"nseeds": 8, "specs": 300, "round": 300, "budget": 0}
    rule = ("class-T specs (class P/S/O Einsum + spacetime: any split of the loop ranks into space and time, .pos/.coord "
            "styles, optional slip) x hash-seed pool; executed on the reference runtime with a recording canvas stand-in. "
            "Oracle: tensors equal the dense model (= the twin without spacetime); exactly one addActivity per executed "
            "update between createCanvas and displayCanvas; one point per displayed tensor, each with as many coordinates "
            "as that tensor had ranks when displayed; and - when levels are looped outermost to innermost (all loop ranks "
            "are always stamped by the generator) - all (space, time) stamps distinct. distinct = distinct (spec, text); "
            "non-trivial = partitioned spec (seed-dependent text)")
    assumptions = ["canvas stand-in records createCanvas/addActivity/displayCanvas; update = in-place += / <<= on a payload",
                   "coordinate-style stamps on flattened ranks are known finding C16-FLATCOORD (witness only)",
                   "spacetime over class-A specs: a failing output is attributed to C04-K1/K2 only by counterfactual re-execution"]

    def gen(self, rng, k):
        spec, meta = classes.gen_spacetime(rng)
        meta["class"] = "T"
        return spec, meta

    def unit_args(self, spec, meta, inputs):
        a = super().unit_args(spec, meta, inputs)
        a["canvas"] = True
        if common.is_affine(meta):
            a["counterfactuals"] = common.AFFINE_CF
        return a

    def attribute(self, spec, meta, inputs, results, v):
        # spacetime over class A meets C04's known findings K1/K2 (float rationals, unclipped interval end)
        if common.is_affine(meta):
            return common.attribute_affine(results, v)
        return None

    def nontrivial(self, spec, meta):
        return bool(meta.get("npart"))

    def levels_ordered(self, meta):
        lo = meta["loop_ranks"]
        seen = {}
        for r in lo:
            root = r.rstrip("0123456789")
            lvl = int(r[len(root):]) if r[len(root):] else None
            if lvl is not None:
                if root in seen and seen[root] < lvl:
                    return False
                seen[root] = lvl
        return True

    def judge(self, spec, meta, inputs, results):
        vs = common.rejection_violations(results, must_accept=True, allowed=REJ)
        vs += common.exec_violations(results)
        if vs:
            return vs
        for h, r in sorted(results.items()):
            if r["status"] != "ok":
                continue
            for i, run in enumerate(r["runs"]):
                cv = run.get("canvas") or []
                if len(cv) != 1:
                    vs.append(common.Violation("canvas_count", [h], {"input_set": i, "canvases": len(cv)}))
                    return vs
                c = cv[0]
                if not c["displayed"]:
                    vs.append(common.Violation("canvas_not_displayed", [h], {"input_set": i}))
                    return vs
                upd = c["updates_at_display"] - c["updates_at_creation"]
                if c["n_acts"] != upd or c["total_updates"] != c["updates_at_display"]:
                    vs.append(common.Violation("activities_vs_updates", [h], {"input_set": i, "activities": c["n_acts"], "updates": upd,
                                                                              "updates_outside_canvas": c["total_updates"] - upd}))
                    return vs
                stamps = set()
                for j, (pts, st, nupd) in enumerate(c["acts"]):
                    if nupd != c["updates_at_creation"] + j + 1:
                        vs.append(common.Violation("activity_not_per_update", [h], {"input_set": i, "activity": j}))
                        return vs
                    if len(pts) != len(c["ranks"]):
                        vs.append(common.Violation("points_vs_tensors", [h], {"input_set": i, "points": len(pts), "tensors": c["names"]}))
                        return vs
                    for p, ranks, name in zip(pts, c["ranks"], c["names"]):
                        if not isinstance(p, list) or len(p) != len(ranks):
                            vs.append(common.Violation("point_arity", [h], {"input_set": i, "tensor": name, "ranks": ranks, "point": p}))
                            return vs
                    key = json.dumps(st)
                    if key in stamps and self.levels_ordered(meta):
                        vs.append(common.Violation("duplicate_stamp", [h], {"input_set": i, "stamp": st}))
                        return vs
                    stamps.add(key)
        return vs

    def observe(self, spec, meta, results, stats):
        stats.add("base:" + meta["base"])
        st = meta["st"]
        if st.get("opt") == "slip":
            stats.add("probe:slip")
        for x in st["space"] + st["time"]:
            if x.endswith(".coord"):
                stats.add("probe:coord_style")
                if x[:-6][-1:].isdigit():
                    stats.add("probe:coord_on_partition_level")
                break
        if not st["space"]:
            stats.add("probe:empty_space")
        if not st["time"]:
            stats.add("probe:empty_time")
        if self.levels_ordered(meta):
            stats.add("stamp_uniqueness_checked")
        for r in results.values():
            if r["status"] == "ok":
                for run in r["runs"]:
                    if run["exec"] == "ok":
                        stats.add("activities_checked", run["canvas"][0]["n_acts"] if run.get("canvas") else 0)
                break


CHECK = C16

if __name__ == "__main__":
    common.main_for(C16)
