"""C19 - omitted mapping means the canonical default."""
import copy

from checks import common
from gen import classes, spec as specmod


def explicit_defaults(spec):
    """The same spec with every omitted mapping section written out as the canonical default,
    computed from the YAML alone (never by asking teaal)."""
    outs = []
    from model import dense
    for e in spec["exprs"]:
        outs.append(dense.output_name(e))
    full_lo = copy.deepcopy(spec)
    lo = dict(full_lo.get("loop_order") or {})
    for o in outs:
        if o not in lo:
            lo[o] = classes.effective_loop_order(spec, o)
    full_lo["loop_order"] = lo
    full_ro = copy.deepcopy(spec)
    ro = dict(full_ro.get("rank_order") or {})
    for t, rs in spec["decl"].items():
        if t not in ro:
            ro[t] = list(rs)
    full_ro["rank_order"] = ro
    full_part = copy.deepcopy(spec)
    p = dict(full_part.get("partitioning") or {})
    for o in outs:
        if o not in p:
            p[o] = {}
    full_part["partitioning"] = p
    # "no partitioning" written rank by rank: every rank of an unpartitioned Einsum gets an empty directive list
    full_ranks = copy.deepcopy(spec)
    p2 = dict(full_ranks.get("partitioning") or {})
    for e, o in zip(spec["exprs"], outs):
        if not p2.get(o):
            ranks = [v.upper() for v in dense.index_vars(e)]
            p2[o] = {r: [] for r in ranks}
    full_ranks["partitioning"] = p2
    return {"explicit_loop_order": full_lo, "explicit_rank_order": full_ro, "explicit_partitioning": full_part,
            "explicit_empty_rank_partitioning": full_ranks}


class C19(common.SpecCheck):
    pid = "C19"
    title = "Omitted mapping means the canonical default"
    unit_fn = "units:compile_many"
    QUICK = {"nseeds": 8, "specs": 600, "round": 600, "budget": 0}
    rule = ("classes S, O (occupancy, no flatten), K, P and A (affine) with loop-order / rank-order / partitioning left out for some "
            "or all Einsums, on every hash seed (the default loop order of a partitioned Einsum is computed by walking a "
            "hash-ordered set of partitionings); per seed the spec as written and four variants with the omitted section "
            "written out as the canonical default - computed by harness code from the YAML alone: declared rank order; "
            "output ranks as written then remaining ranks by first appearance, each partitioned rank replaced in place by "
            "its levels outermost to innermost; empty partitioning (per Einsum, and as an empty directive list per rank) - must compile to byte-identical text. distinct = "
            "distinct (spec, text); about one class-S spec in twenty carries ten or eleven shape levels on one rank (two-digit level numbers); non-trivial = the spec is partitioned and omits the loop order of a partitioned Einsum")
    assumptions = ["flattened specs are outside the stated default (the statement defines the default for partitioned "
                   "ranks by levels only); they are not generated here"]

    def gen(self, rng, k):
        for _ in range(20):
            spec, meta = classes.gen_mixed(rng, [("S", 4), ("O", 3), ("K", 3), ("P", 1), ("A", 2), ("A2", 2)])
            if any(key.startswith("(") for p_ in (spec.get("partitioning") or {}).values() for key in p_):
                continue     # flattening: outside the stated default (see assumptions)
            break
        else:
            return None
        # deep stack (rarely): ten or eleven shape levels on one rank of a class-S spec with the loop order left
        # out, so that the level numbers have two digits (K10 sorts before K2 as a string but is the outermost level)
        if meta["class"] == "S" and rng.random() < 0.05:
            cand = [r for r in meta["ranks"] if r not in meta["out_only"]]
            if cand:
                r = rng.choice(cand)
                n = rng.choice([10, 11])
                spec["partitioning"]["Z"][r] = ["uniform_shape(%d)" % 2 ** i for i in range(n, 0, -1)]
                spec["loop_order"] = None
                meta = dict(meta, deep_stack=r)
        # make sure something is omitted: drop sections at random
        if spec.get("loop_order") and rng.random() < 0.6:
            for o in list(spec["loop_order"]):
                if rng.random() < 0.7:
                    del spec["loop_order"][o]
            if not spec["loop_order"]:
                spec["loop_order"] = None
        if spec.get("rank_order") and rng.random() < 0.5:
            for t in list(spec["rank_order"]):
                if rng.random() < 0.5:
                    del spec["rank_order"][t]
            if not spec["rank_order"]:
                spec["rank_order"] = None
        return spec, meta

    def inputs(self, rng, spec, meta):
        return []

    def unit_args(self, spec, meta, inputs):
        variants = {"as_written": specmod.to_yaml(spec)}
        for name, s in explicit_defaults(spec).items():
            variants[name] = specmod.to_yaml(s)
        return {"variants": variants, "main": "as_written", "mode": "plain"}

    def nontrivial(self, spec, meta):
        part = spec.get("partitioning") or {}
        lo = spec.get("loop_order") or {}
        return any(p and o not in lo for o, p in part.items())

    def judge(self, spec, meta, inputs, results):
        vs = []
        for h, r in sorted(results.items()):
            v = r["variants"]
            base = v["as_written"]
            for name in ("explicit_loop_order", "explicit_rank_order", "explicit_partitioning",
                         "explicit_empty_rank_partitioning"):
                w = v[name]
                if base["status"] != w["status"]:
                    vs.append(common.Violation("default_changes_acceptance:" + name, [h],
                                               {"as_written": base["status"], name: w["status"],
                                                "reject": base["reject"] or w["reject"]}))
                    return vs
                if base["status"] == "ok" and base["text"] != w["text"]:
                    a, b = base["text"].split("\n"), w["text"].split("\n")
                    i = next((j for j in range(min(len(a), len(b))) if a[j] != b[j]), min(len(a), len(b)))
                    vs.append(common.Violation("default_differs:" + name, [h],
                                               {"first_diff_line": i + 1, "omitted": a[i] if i < len(a) else None,
                                                "explicit": b[i] if i < len(b) else None}))
                    return vs
        # accept/reject must not depend on the seed either
        st = {h: r["variants"]["as_written"]["status"] for h, r in results.items()}
        if len(set(st.values())) > 1:
            hs = sorted(st)
            vs.append(common.Violation("seed_dependent_rejection", hs[:2], {"status": {str(h): s for h, s in st.items()}}))
        return vs

    def observe(self, spec, meta, results, stats):
        stats.add("class:" + meta["class"])
        if not spec.get("loop_order"):
            stats.add("probe:all_loop_orders_omitted")
        if meta.get("deep_stack"):
            stats.add("probe:two_digit_level_numbers")
        for r in results.values():
            if r["variants"]["as_written"]["status"] != "ok":
                stats.add("rejected:" + r["variants"]["as_written"]["reject"]["exc"])
            break

    def log_view(self, result):
        return {k: (v["status"], v["text"]) for k, v in result["variants"].items()}


CHECK = C19

if __name__ == "__main__":
    common.main_for(C19)
