"""C11 - metrics instrumentation does not change what is computed."""
from checks import common
from checks.metrics_common import MetricsCheck


class C11(MetricsCheck):
    pid = "C11"
    title = "Metrics instrumentation does not change what is computed"
    rule = ("class-M specs (the five accelerator specifications with perturbed numbers, styles, evict-on ranks, dropped "
            "bindings, small symbolic partition sizes; synthetic 1-3 Einsum cascades with a two-configuration architecture: "
            "DRAM, cache, lazy/eager buffets, compute, the three intersector types, sequencers) x hash-seed pool (metrics "
            "text differs under almost every seed). Each accepted spec is compiled in metrics mode and, with architecture/"
            "bindings/format dropped, in plain mode; both run on identical inputs with inert stand-ins. Oracle: identical "
            "tensors under every common <Name>_<Ranks> name, every explicit shape= entry equal to the extent of its rank, every output equal to the dense model, metrics text closed and "
            "identical on recompilation in the same process. distinct = distinct (spec, metrics text); non-trivial = all")
    assumptions = ["stand-ins are inert with respect to data; leader-follower intersection is generated with the leader as the "
                   "first operand of its term only (payload order of Fiber.intersection otherwise is not modelled)"]

    def unit_args(self, spec, meta, inputs):
        a = super().unit_args(spec, meta, inputs)
        a["recompile"] = 1
        return a

    def judge(self, spec, meta, inputs, results):
        vs = common.rejection_violations(results, must_accept=False)
        oks = {h: r for h, r in results.items() if r["status"] == "ok"}
        for h, r in sorted(oks.items()):
            if "recompile_differs" in r:
                vs.append(common.Violation("recompile_differs_in_process", [h], r["recompile_differs"]))
                return vs
        vs += common.exec_violations(oks)      # metrics-mode outputs == dense model
        if vs:
            return vs
        for h, r in sorted(oks.items()):
            for i, run in enumerate(r["runs"]):
                if run["exec"] == "ok" and run.get("bad_shapes"):
                    vs.append(common.Violation("explicit_shape_wrong", [h], {"input_set": i, "shapes": run["bad_shapes"]}))
                    return vs
        for h, r in sorted(oks.items()):
            if r["twin_status"] != "ok":
                vs.append(common.Violation("plain_twin_rejected", [h], {"reject": r["twin_reject"]}))
                return vs
            for i, run in enumerate(r["runs"]):
                if run.get("twin_exec") != "ok":
                    vs.append(common.Violation("plain_twin_fails", [h], {"input_set": i, "error": run.get("twin_error")}))
                    return vs
                if run["twin_diff"]:
                    vs.append(common.Violation("metrics_mode_changes_tensors", [h], {"input_set": i, "vars": run["twin_diff"]}))
                    return vs
                bad = {o: s for o, s in run["twin_outputs"].items() if s != "ok"}
                if bad:
                    vs.append(common.Violation("plain_twin_wrong", [h], {"input_set": i, "outputs": bad}))
                    return vs
        return vs

    def observe(self, spec, meta, results, stats):
        super().observe(spec, meta, results, stats)
        for r in results.values():
            if r["status"] == "ok":
                t = r["text"]
                for probe, needle in (("leader_follower_path", 'style="leader-follower"'), ("explicit_shape_emitted", "shape=["),
                                      ("eager_buffet", "eager_"), ("merger_swaps", "numSwaps"), ("getPayload_in_metrics_mode", "getPayload")):
                    if needle in t:
                        stats.add("probe:" + probe)
                for run in r["runs"]:
                    if run["exec"] == "ok":
                        stats.add("common_tensor_names_compared", run.get("twin_common", 0))
            break


CHECK = C11

if __name__ == "__main__":
    common.main_for(C11)
