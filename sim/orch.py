"""
Orchestrator side of the simulator: owns the compile nodes (one or more zygote
interpreters per hash seed), schedules units on them and merges results keyed
by unit id.  Nothing here influences a unit's result: a unit is a pure function
of (fn, args, hash seed, code under TEAAL_REPO); arrival order, number of cores
and OS scheduling only decide *when* a result shows up, and results are only
ever consumed through the uid-keyed dict.
"""
import hashlib
import json
import os
import queue
import subprocess
import sys
import threading
import time

VERIF = os.path.dirname(os.path.dirname(os.path.abspath(__file__)))
PY = os.environ.get("TEAAL_PY", "/venv/bin/python")


def repo_path():
    return os.environ.get("TEAAL_REPO", "/repo")


def sub_seed(*parts):
    """Derive an integer from (VERIF_SEED, purpose, index...) with SHA-256 (never hash())."""
    h = hashlib.sha256(repr(parts).encode()).digest()
    return int.from_bytes(h[:8], "big")


def sha(s):
    if isinstance(s, str):
        s = s.encode()
    return hashlib.sha256(s).hexdigest()[:16]


def code_digest():
    """Digest of /repo's teaal/ working tree (recorded in replay files)."""
    h = hashlib.sha256()
    root = os.path.join(repo_path(), "teaal")
    for d, dirs, files in sorted(os.walk(root)):
        dirs.sort()
        for f in sorted(files):
            if f.endswith(".py"):
                p = os.path.join(d, f)
                h.update(os.path.relpath(p, root).encode())
                with open(p, "rb") as fh:
                    h.update(fh.read())
    return h.hexdigest()[:16]


class HarnessError(Exception):
    pass


class _Node:
    """One interpreter with a fixed hash seed.  kind 'worker' runs units in-process;
    kind 'template' never runs a unit itself and forks a pristine child per batch."""

    def __init__(self, hseed, kind):
        self.hseed = hseed
        self.kind = kind
        self.restarts = 0
        self._start()

    def _start(self):
        env = dict(os.environ)
        env["PYTHONHASHSEED"] = str(self.hseed)
        env["TEAAL_REPO"] = repo_path()
        env["PYTHONDONTWRITEBYTECODE"] = "1"
        env["VERIF_NODE_KIND"] = self.kind
        self.proc = subprocess.Popen(
            [PY, "-u", os.path.join(VERIF, "sim", "zygote.py")],
            stdin=subprocess.PIPE, stdout=subprocess.PIPE, env=env, cwd=VERIF, text=True, bufsize=1)

    def wait_ready(self):
        line = self.proc.stdout.readline()
        if not line:
            raise HarnessError("node for hash seed %s failed to start" % self.hseed)
        msg = json.loads(line)
        if not msg.get("ready") or str(msg.get("hashseed")) != str(self.hseed):
            raise HarnessError("node handshake mismatch: %r" % (msg,))

    def call_batch(self, jobs):
        """jobs: list of {uid, fn, args, timeout}; returns list of result dicts (each with uid).
        If the interpreter dies, the unit it was running gets a harness_error, the node is
        restarted and the rest of the batch continues there."""
        out = []
        todo = list(jobs)
        while todo:
            try:
                self.proc.stdin.write(json.dumps({"batch": todo, "inline": self.kind == "worker"}) + "\n")
                self.proc.stdin.flush()
            except (BrokenPipeError, OSError):
                pass
            n = 0
            died = False
            while True:
                line = self.proc.stdout.readline()
                if not line:
                    died = True
                    break
                msg = json.loads(line)
                if msg.get("batch_done"):
                    break
                out.append(msg)
                n += 1
            if not died:
                return out
            rc = self.proc.wait()
            if n < len(todo):
                out.append({"uid": todo[n]["uid"],
                            "harness_error": "node interpreter died (exit %s) while running this unit" % rc})
                n += 1
            todo = todo[n:]
            self.restarts += 1
            if self.restarts > 20:
                raise HarnessError("node for hash seed %s keeps dying" % self.hseed)
            self._start()
            self.wait_ready()
        return out

    def close(self):
        try:
            self.proc.stdin.write(json.dumps({"quit": True}) + "\n")
            self.proc.stdin.flush()
            self.proc.stdin.close()
        except Exception:
            pass
        try:
            self.proc.wait(timeout=5)
        except Exception:
            self.proc.kill()


class Cluster:
    """A set of compile nodes.  hseeds: hash seeds; per_seed: worker interpreters per
    seed; templates: pristine-fork template interpreters per seed (0 = none)."""

    def __init__(self, hseeds, per_seed=None, templates=0):
        self.hseeds = list(hseeds)
        per = per_seed if per_seed is not None else (
            int(os.environ.get("VERIF_NODES_PER_SEED", "0")) or max(1, 16 // max(1, len(self.hseeds))))
        self.workers = {h: [_Node(h, "worker") for _ in range(per)] for h in self.hseeds}
        self.templates = {h: [_Node(h, "template") for _ in range(templates)] for h in self.hseeds}
        for group in (self.workers, self.templates):
            for zs in group.values():
                for z in zs:
                    z.wait_ready()
        self.units_run = 0
        self.units_per_seed = {h: 0 for h in self.hseeds}

    def run(self, units, fresh=False, batch=1):
        """units: list of dicts {uid, hseed, fn, args[, timeout]} -> {uid: result dict}.
        result is {"ok": ...} or {"harness_error": ...}.

        fresh=False (default, fast): the units of hash seed h are dealt, in list
        order, round-robin to the worker interpreters of that seed, each of which
        runs its share in order, in-process.  Which units share an interpreter, and
        in what order, depends only on the unit lists passed so far and on the
        configured workers per seed - never on timing or on the number of cores.
        (Forked children are 5x slower on this machine: DESIGN 3.7.)

        fresh=True: units are cut into batches of `batch` units and each batch runs
        in its own child forked from a template interpreter that has never run a
        unit: pristine post-import state per batch."""
        group = self.templates if fresh else self.workers
        qs = {}
        per_seed = {h: [] for h in self.hseeds}
        for u in units:
            if u["hseed"] not in per_seed:
                raise HarnessError("unit %r asks for hash seed %r which has no node" % (u["uid"], u["hseed"]))
            per_seed[u["hseed"]].append(u)
        for h, zs in group.items():
            us = per_seed[h]
            if us and not zs:
                raise HarnessError("no %s node for hash seed %r" % ("template" if fresh else "worker", h))
            if fresh:
                q = queue.Queue()
                for i in range(0, len(us), batch):
                    q.put(us[i:i + batch])
                for z in zs:
                    qs[z] = q
            else:
                for j, z in enumerate(zs):
                    q = queue.Queue()
                    share = us[j::len(zs)]
                    if share:
                        q.put(share)
                    qs[z] = q
        results = {}
        lock = threading.Lock()
        errors = []

        def worker(z, q):
            while True:
                try:
                    b = q.get_nowait()
                except queue.Empty:
                    return
                try:
                    res = z.call_batch([{"uid": u["uid"], "fn": u["fn"], "args": u["args"],
                                         "timeout": u.get("timeout", 30)} for u in b])
                except Exception as e:
                    errors.append(repr(e))
                    return
                with lock:
                    for r in res:
                        results[r.pop("uid")] = r

        threads = []
        for z, q in qs.items():
            t = threading.Thread(target=worker, args=(z, q), daemon=True)
            t.start()
            threads.append(t)
        for t in threads:
            t.join()
        if errors:
            raise HarnessError("; ".join(errors))
        missing = [u["uid"] for u in units if u["uid"] not in results]
        if missing:
            raise HarnessError("units without result: %r" % missing[:5])
        self.units_run += len(units)
        for u in units:
            self.units_per_seed[u["hseed"]] += 1
        return results

    def close(self):
        for group in (self.workers, self.templates):
            for zs in group.values():
                for z in zs:
                    z.close()

    def __enter__(self):
        return self

    def __exit__(self, *a):
        self.close()


def seed_pool(verif_seed, n):
    """Hash-seed pool derived from VERIF_SEED: always contains 0 and 1, rest derived."""
    pool = [0, 1]
    i = 0
    while len(pool) < n:
        s = sub_seed(verif_seed, "hashseed", i) % 4294967295 + 1
        i += 1
        if s not in pool:
            pool.append(s)
    return pool[:n]


class Budget:
    """Wall-clock is read only to decide whether to *launch* another batch."""

    def __init__(self, seconds):
        self.t0 = time.time()
        self.seconds = seconds

    def left(self):
        return self.seconds - (time.time() - self.t0)

    def spent(self):
        return time.time() - self.t0
