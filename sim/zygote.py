"""
Compile node ("zygote") of the simulator.

One zygote is one CPython interpreter started by the orchestrator with a
chosen PYTHONHASHSEED.  It imports teaal (from TEAAL_REPO, default /repo) and
the harness once, then serves jobs read from stdin as JSON lines.  Every job is
executed in a fork()ed child, so each unit starts from the pristine
post-import state of the interpreter and shares its hash secret; the child
reports its result through a pipe and exits without running atexit handlers.

Outcome classes are kept apart:
  {"ok": <result>}            the unit function returned
  {"harness_error": "..."}    the unit function raised, the child died or timed out
Rejections and violations are part of <result>; they are never exceptions here.
"""
import faulthandler
import importlib
import json
import os
import signal
import sys

VERIF = os.path.dirname(os.path.dirname(os.path.abspath(__file__)))
REPO = os.environ.get("TEAAL_REPO", "/repo")
sys.path[:0] = [REPO, VERIF]
sys.setrecursionlimit(10000)


def _preload():
    import teaal.parse  # noqa
    import teaal.trans.hifiber  # noqa
    import teaal.ir.flow_graph  # noqa
    import teaal.ir.fusion  # noqa
    import teaal
    got = os.path.realpath(os.path.dirname(os.path.dirname(teaal.__file__)))
    want = os.path.realpath(REPO)
    if got != want:
        raise SystemExit("zygote: teaal imported from %s, wanted %s" % (got, want))
    import units  # noqa  (harness unit functions)
    _preimport_lazy_modules()


WARM = """
einsum:
  declaration:
    I: [W]
    F: [S]
    A: [K, M]
    O: [Q, M]
  expressions:
    - O[q, m] = I[2 * q + s] * F[s] * A[k, m]
mapping:
  partitioning:
    O:
      Q: [uniform_shape(4)]
      W: [follow(Q)]
      K: [uniform_occupancy(A.2)]
  loop-order:
    O: [Q1, K1, Q0, S, M, K0]
"""


def _preimport_lazy_modules():
    """sympy, lark and networkx import some of their modules lazily on first use.
    Children are forked from this interpreter, so whatever is not imported here is
    imported again in every child (seconds).  A throw-away child compiles one
    specification and reports which modules that pulled in; the zygote then
    imports those *modules* - no teaal object is created in the zygote itself."""
    r, w = os.pipe()
    pid = os.fork()
    if pid == 0:
        os.close(r)
        before = set(sys.modules)
        try:
            from teaal.parse import Einsum, Mapping
            from teaal.trans.hifiber import HiFiber
            str(HiFiber(Einsum.from_str(WARM), Mapping.from_str(WARM)))
        except BaseException:  # noqa
            pass
        names = sorted(set(sys.modules) - before)
        os.write(w, json.dumps(names).encode())
        os._exit(0)
    os.close(w)
    data = b""
    while True:
        b = os.read(r, 1 << 16)
        if not b:
            break
        data += b
    os.close(r)
    os.waitpid(pid, 0)
    for name in json.loads(data or b"[]"):
        try:
            importlib.import_module(name)
        except Exception:
            pass


def _write_all(fd, data):
    off = 0
    while off < len(data):
        off += os.write(fd, data[off:off + 65536])


def _run_child(jobs, wfd):
    """Run a batch of jobs in this forked child, streaming one JSON line per job."""
    import gc
    gc.disable()
    faulthandler.enable()
    signal.signal(signal.SIGALRM, signal.SIG_DFL)
    for job in jobs:
        tmo = int(job.get("timeout", 30))
        signal.alarm(tmo)
        # (no faulthandler.dump_traceback_later here: it starts a watchdog thread, and unit functions
        #  fork again - a thread-holding parent is how forked children deadlock)
        try:
            mod, fn = job["fn"].split(":")
            f = getattr(importlib.import_module(mod), fn)
            out = {"ok": f(job["args"])}
        except BaseException:  # noqa
            import traceback
            out = {"harness_error": traceback.format_exc()[-4000:]}
        out["uid"] = job.get("uid")
        try:
            data = json.dumps(out).encode()
        except BaseException:  # noqa
            import traceback
            data = json.dumps({"uid": job.get("uid"),
                               "harness_error": "unserialisable result: " + traceback.format_exc()[-2000:]}).encode()
        signal.alarm(0)
        _write_all(wfd, data + b"\n")
    os.close(wfd)
    os._exit(0)


class UnitTimeout(BaseException):
    pass


def _on_alarm(signum, frame):
    raise UnitTimeout()


def _serve_inline(jobs, out):
    """Run the jobs in THIS interpreter, in order (fast path: no fork, no copy-on-write)."""
    signal.signal(signal.SIGALRM, _on_alarm)
    for job in jobs:
        tmo = int(job.get("timeout", 30))
        signal.alarm(tmo)
        try:
            mod, fn = job["fn"].split(":")
            f = getattr(importlib.import_module(mod), fn)
            res = {"ok": f(job["args"])}
        except UnitTimeout:
            res = {"harness_error": "unit timed out after %d s" % tmo}
        except BaseException:  # noqa
            import traceback
            res = {"harness_error": traceback.format_exc()[-4000:]}
        finally:
            signal.alarm(0)
        res["uid"] = job.get("uid")
        try:
            line = json.dumps(res)
        except BaseException:  # noqa
            line = json.dumps({"uid": job.get("uid"), "harness_error": "unserialisable result"})
        out.write(line + "\n")
    out.flush()


def _serve_batch(jobs, out):
    """Fork a child for the batch; if it dies at job j, report that and continue with j+1.."""
    todo = list(jobs)
    while todo:
        r, w = os.pipe()
        pid = os.fork()
        if pid == 0:
            os.close(r)
            _run_child(todo, w)
        os.close(w)
        done = 0
        buf = b""
        while True:
            b = os.read(r, 1 << 20)
            if not b:
                break
            buf += b
            while b"\n" in buf:
                line, buf = buf.split(b"\n", 1)
                out.write(line.decode() + "\n")
                done += 1
        os.close(r)
        _, status = os.waitpid(pid, 0)
        out.flush()
        if done < len(todo):
            res = {"uid": todo[done].get("uid"),
                   "harness_error": "child died with status %d (signal %d) while running this unit" % (
                       status, status & 0x7f)}
            out.write(json.dumps(res) + "\n")
            out.flush()
            done += 1
        todo = todo[done:]


def main():
    _preload()
    import gc
    gc.collect()
    if os.environ.get("VERIF_NODE_KIND") == "template":
        gc.freeze()   # children never scan (and so never copy-on-write) the preloaded heap
    out = sys.stdout
    out.write(json.dumps({"ready": True, "hashseed": os.environ.get("PYTHONHASHSEED"), "pid": os.getpid()}) + "\n")
    out.flush()
    for line in sys.stdin:
        line = line.strip()
        if not line:
            continue
        job = json.loads(line)
        if job.get("quit"):
            break
        if job.get("inline"):
            _serve_inline(job["batch"], out)
        else:
            _serve_batch(job["batch"], out)
        out.write(json.dumps({"batch_done": True}) + "\n")
        out.flush()


if __name__ == "__main__":
    main()
